"""SMT terms with light simplification and an SMT-LIB2 printer.

pyvc prints its own SMT-LIB (see DESIGN.md 1.4: the z3 Python API solver object was unreliable here and its
printer is not portable to cvc5).  Terms are immutable; constructors fold constants so that concrete
executions (macro bodies, table enumeration, concrete loop bounds) never reach a solver.

Sorts:  Int  Bool  Arr (= (Array Int Int))  Str (= String)  Val (datatype, see prelude.py)  and heap sorts.
Python semantics assumed by the arithmetic helpers (P1/P2 of DESIGN.md 1.3): int is mathematical; floor
division / modulo follow Python (sign of the divisor); bit operations are rewritten only in the shapes
listed in bitops below.
"""
from __future__ import annotations

INT, BOOL, ARR, STR, VAL = 'Int', 'Bool', 'Arr', 'Str', 'Val'
SORT_SMT = {INT: 'Int', BOOL: 'Bool', ARR: '(Array Int Int)', STR: 'String', VAL: 'Val',
            'Fields': '(Array String Val)', 'Keys': '(Array String Bool)',
            'Heap': '(Array Int (Array String Val))', 'Dom': '(Array Int (Array String Bool))',
            'VMapHas': '(Array Val Bool)', 'VMapGet': '(Array Val Val)', 'VArr': '(Array Int Val)'}


class T:
    __slots__ = ('sort', 'op', 'args', '_s', '_h')

    def __init__(self, sort, op, args=()):
        self.sort = sort
        self.op = op
        self.args = tuple(args)
        self._s = None
        self._h = None

    # ---- printing
    def smt(self):
        if self._s is None:
            op, a = self.op, self.args
            if op == 'int':
                v = a[0]
                self._s = str(v) if v >= 0 else '(- %d)' % (-v)
            elif op == 'bool':
                self._s = 'true' if a[0] else 'false'
            elif op == 'strlit':
                self._s = '"' + smt_escape(a[0]) + '"'
            elif op == 'var':
                self._s = a[0]
            elif op == 'raw':
                self._s = a[0]
            elif op == 'forall':
                (vars_, body, pats) = a
                vs = ' '.join('(%s %s)' % (v.smt(), SORT_SMT.get(v.sort, v.sort)) for v in vars_)
                if pats:
                    ps = ' '.join(':pattern (%s)' % ' '.join(p.smt() for p in pat) for pat in pats)
                    self._s = '(forall (%s) (! %s %s))' % (vs, body.smt(), ps)
                else:
                    self._s = '(forall (%s) %s)' % (vs, body.smt())
            elif not a:
                self._s = op
            else:
                self._s = '(%s %s)' % (op, ' '.join(x.smt() for x in a))
        return self._s

    __str__ = smt

    def __repr__(self):
        return 'T<%s:%s>' % (self.sort, self.smt())

    def __hash__(self):
        if self._h is None:
            self._h = hash(self.smt())
        return self._h

    def __eq__(self, other):
        return isinstance(other, T) and self.smt() == other.smt()

    # ---- queries
    def is_const(self):
        return self.op in ('int', 'bool', 'strlit')

    @property
    def value(self):
        assert self.is_const(), self
        return self.args[0]

    def free_vars(self, acc=None):
        if acc is None:
            acc = {}
        stack = [self]
        seen = set()
        while stack:
            t = stack.pop()
            if id(t) in seen:
                continue
            seen.add(id(t))
            if t.op == 'var':
                acc[t.args[0]] = t.sort
            elif t.op == 'forall':
                vars_, body, pats = t.args
                inner = body.free_vars()
                for p in pats:
                    for q in p:
                        q.free_vars(inner)
                for v in vars_:
                    inner.pop(v.args[0], None)
                acc.update(inner)
            elif t.op in ('int', 'bool', 'strlit', 'raw'):
                pass
            else:
                stack.extend(t.args)
        return acc

    def apps(self, acc=None):
        """names of applied (non-builtin) function symbols, for prelude dependency closure"""
        if acc is None:
            acc = set()
        stack = [self]
        seen = set()
        while stack:
            t = stack.pop()
            if id(t) in seen:
                continue
            seen.add(id(t))
            if t.op == 'forall':
                stack.append(t.args[1])
                for p in t.args[2]:
                    stack.extend(p)
            elif t.op == 'raw':
                acc.add(('raw', t.args[0]))
            elif t.op in ('int', 'bool', 'strlit', 'var'):
                pass
            else:
                acc.add(t.op)
                stack.extend(t.args)
        return acc


def smt_escape(s):
    out = []
    for ch in s:
        o = ord(ch)
        if ch == '"':
            out.append('""')
        elif 32 <= o < 127 and ch != '\\':
            out.append(ch)
        else:
            out.append('\\u{%x}' % o)
    return ''.join(out)


# ------------------------------------------------------------------ constructors
def I(v):
    return T(INT, 'int', (int(v),))


def Bc(v):
    return T(BOOL, 'bool', (bool(v),))


TRUE, FALSE = Bc(True), Bc(False)
ZERO, ONE = I(0), I(1)


def S(v):
    return T(STR, 'strlit', (v,))


def var(name, sort):
    if not (name.startswith('|') or name.replace('_', 'a').replace('.', 'a').replace('!', 'a').isalnum()):
        name = '|%s|' % name
    elif '!' in name or '.' in name:
        name = '|%s|' % name
    return T(sort, 'var', (name,))


def raw(text, sort):
    return T(sort, 'raw', (text,))


CTORS = {'VNone': (), 'VInt': ('ival',), 'VBool': ('bval',), 'VBytes': ('barr', 'boff', 'blen'), 'VStr': ('sval',), 'VRef': ('ref',), 'VOpq': ('oid',)}
_SEL = {sel: (c, i) for c, sels in CTORS.items() for i, sel in enumerate(sels)}


def app(name, sort, *args):
    # datatype simplifications: selector / tester / helper applied to a constructor term
    if len(args) == 1 and args[0].sort == VAL and args[0].op in CTORS:
        a = args[0]
        if name in _SEL and _SEL[name][0] == a.op:
            return a.args[_SEL[name][1]]
        if name.startswith('(_ is '):
            return Bc(name == '(_ is %s)' % a.op)
        if name == 'isint':
            return Bc(a.op in ('VInt', 'VBool'))
        if name == 'toint':
            if a.op == 'VInt':
                return a.args[0]
            if a.op == 'VBool':
                return ite(a.args[0], ONE, ZERO)
        if name == 'truthy':
            if a.op == 'VNone':
                return FALSE
            if a.op == 'VInt':
                return ne(a.args[0], ZERO)
            if a.op == 'VBool':
                return a.args[0]
            if a.op == 'VBytes':
                return gt(a.args[2], ZERO)
    if name == 'pyeq' and len(args) == 2 and args[0] == args[1]:
        return TRUE
    return T(sort, name, args)


def _ints(args):
    return all(a.op == 'int' for a in args)


def add(*args):
    flat = []
    c = 0
    for a in args:
        if a.op == '+':
            for b in a.args:
                if b.op == 'int':
                    c += b.args[0]
                else:
                    flat.append(b)
        elif a.op == 'int':
            c += a.args[0]
        else:
            flat.append(a)
    if c != 0 or not flat:
        flat.append(I(c))
    if len(flat) == 1:
        return flat[0]
    return T(INT, '+', flat)


def neg(a):
    if a.op == 'int':
        return I(-a.args[0])
    if a.op == '-' and len(a.args) == 1:
        return a.args[0]
    return T(INT, '-', (a,))


def sub(a, b):
    if b.op == 'int':
        return add(a, I(-b.args[0]))
    if a == b:
        return ZERO
    if a.op == 'int' and a.args[0] == 0:
        return neg(b)
    # (x + c) - x
    if a.op == '+' and b in a.args:
        rest = list(a.args)
        rest.remove(b)
        return add(*rest)
    if b.op == '+' and a in b.args:
        rest = list(b.args)
        rest.remove(a)
        return neg(add(*rest))
    return T(INT, '-', (a, b))


def mul(a, b):
    if a.op == 'int' and b.op == 'int':
        return I(a.args[0] * b.args[0])
    for x, y in ((a, b), (b, a)):
        if x.op == 'int':
            if x.args[0] == 0:
                return ZERO
            if x.args[0] == 1:
                return y
    return T(INT, '*', (a, b))


def pyfloordiv(a, b):
    """Python // (floor).  SMT-LIB div is euclidean: equal to floor for positive divisors."""
    if a.op == 'int' and b.op == 'int' and b.args[0] != 0:
        return I(a.args[0] // b.args[0])
    if b.op == 'int' and b.args[0] > 0:
        if b.args[0] == 1:
            return a
        return T(INT, 'div', (a, b))
    # general: for b<0  floor(a/b) = floor((-a)/(-b)) = (-a) div (-b)   (euclidean div with a positive divisor is floor)
    return ite(gt(b, ZERO), T(INT, 'div', (a, b)), T(INT, 'div', (neg(a), neg(b))))


def pymod(a, b):
    """Python % (sign of divisor).  SMT-LIB mod is non-negative: equal for positive divisors."""
    if a.op == 'int' and b.op == 'int' and b.args[0] != 0:
        return I(a.args[0] % b.args[0])
    if b.op == 'int' and b.args[0] > 0:
        if b.args[0] == 1:
            return ZERO
        return T(INT, 'mod', (a, b))
    return ite(gt(b, ZERO), T(INT, 'mod', (a, b)), sub(a, mul(b, pyfloordiv(a, b))))


def _cmp(op, pyop, a, b):
    if a.op == 'int' and b.op == 'int':
        return Bc(pyop(a.args[0], b.args[0]))
    if a == b:
        return Bc(pyop(0, 0))
    return T(BOOL, op, (a, b))


def lt(a, b):
    return _cmp('<', lambda x, y: x < y, a, b)


def le(a, b):
    return _cmp('<=', lambda x, y: x <= y, a, b)


def gt(a, b):
    return _cmp('>', lambda x, y: x > y, a, b)


def ge(a, b):
    return _cmp('>=', lambda x, y: x >= y, a, b)


def eq(a, b):
    if a.is_const() and b.is_const():
        return Bc(a.args[0] == b.args[0] and a.op == b.op)
    if a == b:
        return TRUE
    if a.sort == BOOL:
        if a.op == 'bool':
            return b if a.args[0] else not_(b)
        if b.op == 'bool':
            return a if b.args[0] else not_(a)
    return T(BOOL, '=', (a, b))


def ne(a, b):
    return not_(eq(a, b))


def not_(a):
    if a.op == 'bool':
        return Bc(not a.args[0])
    if a.op == 'not':
        return a.args[0]
    return T(BOOL, 'not', (a,))


def and_(*args):
    flat = []
    for a in args:
        if a.op == 'bool':
            if not a.args[0]:
                return FALSE
            continue
        if a.op == 'and':
            flat.extend(a.args)
        else:
            flat.append(a)
    out = []
    seen = set()
    for a in flat:
        k = a.smt()
        if k not in seen:
            seen.add(k)
            out.append(a)
    for a in out:
        if not_(a).smt() in seen:
            return FALSE
    if not out:
        return TRUE
    if len(out) == 1:
        return out[0]
    return T(BOOL, 'and', out)


def or_(*args):
    flat = []
    for a in args:
        if a.op == 'bool':
            if a.args[0]:
                return TRUE
            continue
        if a.op == 'or':
            flat.extend(a.args)
        else:
            flat.append(a)
    out = []
    seen = set()
    for a in flat:
        k = a.smt()
        if k not in seen:
            seen.add(k)
            out.append(a)
    for a in out:
        if not_(a).smt() in seen:
            return TRUE
    if not out:
        return FALSE
    if len(out) == 1:
        return out[0]
    return T(BOOL, 'or', out)


def implies(a, b):
    if a.op == 'bool':
        return b if a.args[0] else TRUE
    if b.op == 'bool':
        return TRUE if b.args[0] else not_(a)
    return T(BOOL, '=>', (a, b))


def ite(c, a, b):
    if c.op == 'bool':
        return a if c.args[0] else b
    if a == b:
        return a
    if a.sort == BOOL:
        if a.op == 'bool' and b.op == 'bool':
            return c if a.args[0] else not_(c)
    return T(a.sort, 'ite', (c, a, b))


def select(arr, i, _depth=0):
    # read-over-write: concrete indices fold; symbolic ones expand to ite so that (select base i) is syntactically
    # present (quantifier patterns over the base array then fire after instantiation)
    a = arr
    if a.op == 'store' and arr.sort == ARR:
        base, j, v = a.args
        if j == i:
            return v
        if j.op == 'int' and i.op == 'int':
            return select(base, i, _depth)
        if _depth < 12:
            return ite(eq(i, j), v, select(base, i, _depth + 1))
    if a.op == 'constarr':
        return a.args[0]
    return T(INT if arr.sort == ARR else _elem_sort(arr.sort), 'select', (a, i))


def _elem_sort(s):
    return {'Fields': VAL, 'Keys': BOOL, 'Heap': 'Fields', 'Dom': 'Keys'}[s]


def store(arr, i, v):
    return T(arr.sort, 'store', (arr, i, v))


def const_arr(v, sort=ARR):
    t = T(sort, 'constarr', (v,))
    t._s = '((as const %s) %s)' % (SORT_SMT[sort], v.smt())
    return t


def forall(vars_, body, pats=()):
    if body.op == 'bool' and body.args[0]:
        return TRUE
    return T(BOOL, 'forall', (tuple(vars_), body, tuple(tuple(p) for p in pats)))


def str_concat(*args):
    flat = []
    for a in args:
        if a.op == 'str.++':
            flat.extend(a.args)
        else:
            flat.append(a)
    out = []
    for a in flat:
        if a.op == 'strlit' and out and out[-1].op == 'strlit':
            out[-1] = S(out[-1].args[0] + a.args[0])
        elif a.op == 'strlit' and a.args[0] == '':
            continue
        else:
            out.append(a)
    if not out:
        return S('')
    if len(out) == 1:
        return out[0]
    return T(STR, 'str.++', out)


def str_prefixof(p, s):
    if p.op == 'strlit' and s.op == 'strlit':
        return Bc(s.args[0].startswith(p.args[0]))
    if p == s:
        return TRUE
    if s.op == 'str.++' and s.args[0] == p:
        return TRUE
    return T(BOOL, 'str.prefixof', (p, s))


def imin(a, b):
    if a.op == 'int' and b.op == 'int':
        return I(min(a.args[0], b.args[0]))
    return ite(le(a, b), a, b)


def imax(a, b):
    if a.op == 'int' and b.op == 'int':
        return I(max(a.args[0], b.args[0]))
    return ite(ge(a, b), a, b)


def substitute(t, mapping):
    """mapping: dict smt-name-of-var -> T.  Capture is avoided by construction (bound vars use reserved names)."""
    cache = {}

    def go(t):
        k = id(t)
        if k in cache:
            return cache[k]
        if t.op == 'var':
            r = mapping.get(t.args[0], t)
        elif t.op in ('int', 'bool', 'strlit', 'raw', 'constarr'):
            if t.op == 'constarr':
                r = const_arr(go(t.args[0]), t.sort)
            else:
                r = t
        elif t.op == 'forall':
            vars_, body, pats = t.args
            inner = {k2: v for k2, v in mapping.items() if k2 not in {x.args[0] for x in vars_}}
            r = T(BOOL, 'forall', (vars_, substitute(body, inner), tuple(tuple(substitute(q, inner) for q in p) for p in pats)))
        else:
            r = T(t.sort, t.op, tuple(go(x) for x in t.args))
        cache[k] = r
        return r
    return go(t)
