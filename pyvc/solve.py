"""Solver portfolio: z3 5.1 (z3-new), cvc5 1.0.3, z3 4.8.12, run as subprocesses on SMT-LIB text.

Verdict protocol (DESIGN.md 4):
  'unsat'   at least one solver proved the negated obligation unsatisfiable and none said sat  -> discharged
  'sat'     a solver produced a counter-model                                                   -> failed
  'unknown' solvers gave up for incompleteness (reason attached)
  'timeout' every solver ran out of its budget
Nothing here maps unknown/timeout to a violation; that decision is taken by the caller with the lock file.
"""
import os
import re
import shutil
import subprocess
import tempfile
import time
from concurrent.futures import ThreadPoolExecutor

Z3NEW = shutil.which('z3-new') or '/opt/veriftools/pyvenv/bin/z3'
Z3OLD = '/usr/bin/z3'
CVC5 = '/usr/bin/cvc5'

SOLVERS = {
    'z3-5.1': lambda fn, t: [Z3NEW, '-T:%d' % t, fn],
    'cvc5-1.0.3': lambda fn, t: [CVC5, '--strings-exp', '--tlimit=%d' % (t * 1000), '--produce-models', fn],
    'z3-4.8.12': lambda fn, t: [Z3OLD, '-T:%d' % t, fn],
}
ORDER = ['z3-5.1', 'cvc5-1.0.3', 'z3-4.8.12']

MAXPAR = int(os.environ.get('PYVC_JOBS', '8'))
RETRY_MAX = 6


def solver_versions():
    out = {}
    for name, cmd in (('z3-5.1', [Z3NEW, '--version']), ('cvc5-1.0.3', [CVC5, '--version']), ('z3-4.8.12', [Z3OLD, '--version'])):
        try:
            out[name] = subprocess.run(cmd, capture_output=True, text=True, timeout=20).stdout.strip().splitlines()[0]
        except Exception as e:  # pragma: no cover
            out[name] = 'MISSING: %r' % (e,)
    return out


def run_one(solver, text, timeout):
    d = tempfile.mkdtemp(prefix='pyvc-')
    fn = os.path.join(d, 'q.smt2')
    with open(fn, 'w') as f:
        f.write(text)
    t0 = time.time()
    try:
        p = subprocess.run(SOLVERS[solver](fn, timeout), capture_output=True, text=True, timeout=timeout + 10)
        out = (p.stdout or '').strip()
        err = (p.stderr or '').strip()
    except subprocess.TimeoutExpired:
        out, err = 'timeout', ''
    finally:
        shutil.rmtree(d, ignore_errors=True)
    dt = time.time() - t0
    first = out.splitlines()[0].strip() if out else ''
    if first not in ('sat', 'unsat', 'unknown', 'timeout'):
        # errors (unsupported feature, parse error) are checker problems, never verdicts
        if 'timeout' in out.lower() or 'interrupted' in out.lower() or 'resourceout' in out.lower():
            first = 'timeout'
        else:
            first = 'error'
    if first == 'unknown':
        low = (out + err).lower()
        if 'timeout' in low or 'canceled' in low or 'resource' in low or 'interrupted' in low or dt >= timeout - 0.5:
            first = 'timeout'
    return first, dt, out, err


class Result:
    def __init__(self, verdict, solver, secs, outputs):
        self.verdict = verdict          # unsat | sat | unknown | timeout | error
        self.solver = solver
        self.secs = secs
        self.outputs = outputs          # {solver: (verdict, secs, stdout)}

    def brief(self):
        return {'verdict': self.verdict, 'solver': self.solver, 'secs': round(self.secs, 3),
                'all': {k: (v[0], round(v[1], 3)) for k, v in self.outputs.items()}}


def _classify(out, err, dt, timeout):
    first = out.splitlines()[0].strip() if out else ''
    if first not in ('sat', 'unsat', 'unknown', 'timeout'):
        low = (out + err).lower()
        if 'timeout' in low or 'interrupted' in low or 'resourceout' in low:
            first = 'timeout'
        else:
            first = 'error'
    if first == 'unknown':
        low = (out + err).lower()
        if 'timeout' in low or 'canceled' in low or 'resource' in low or 'interrupted' in low or dt >= timeout - 0.5:
            first = 'timeout'
    return first


def solve(text, timeout=30, tier='quick', order=None, pre_text=None, stage_timeout=3):
    """quick tier: most obligations are discharged by z3 5.1 in milliseconds, so it is tried alone first with a short
    budget; anything else goes to the full racing portfolio with the full budget."""
    if tier == 'cover':
        # vacuity guard: one solver, short budget; only 'unsat' (hypotheses contradictory) matters
        v, dt, out, err = run_one('z3-5.1', text, timeout)
        return Result(v, 'z3-5.1', dt, {'z3-5.1': (v, dt, out)})
    if pre_text is not None:
        # stage 0: recursive specification functions left uninterpreted (weaker hypotheses: a proof found here is valid and
        # is not disturbed by the solver's unfolding heuristics, which made some proofs unstable)
        v, dt, out, err = run_one('z3-5.1', pre_text, stage_timeout)
        if v == 'unsat':
            return Result('unsat', 'z3-5.1(opaque-specs)', dt, {'z3-5.1(opaque-specs)': (v, dt, out)})
    if tier == 'quick' and order is None:
        v, dt, out, err = run_one('z3-5.1', text, stage_timeout)
        if v == 'unsat':
            return Result('unsat', 'z3-5.1', dt, {'z3-5.1': (v, dt, out)})
    return solve_race(text, timeout, tier, order)


def solve_race(text, timeout=30, tier='quick', order=None):
    """Race the portfolio on one query.  quick: first definite answer wins and the others are killed;
    thorough: every solver runs to completion and a sat/unsat disagreement is an error."""
    order = order or ORDER
    d = tempfile.mkdtemp(prefix='pyvc-')
    fn = os.path.join(d, 'q.smt2')
    with open(fn, 'w') as f:
        f.write(text)
    procs = {}
    t0 = time.time()
    outputs = {}
    try:
        for s in order:
            procs[s] = subprocess.Popen(SOLVERS[s](fn, timeout), stdout=subprocess.PIPE, stderr=subprocess.PIPE, text=True)
        pending = dict(procs)
        verdict, by = None, None
        while pending:
            done = [s for s, p in pending.items() if p.poll() is not None]
            if not done:
                if time.time() - t0 > timeout + 10:
                    for s, p in pending.items():
                        p.kill()
                        outputs[s] = ('timeout', time.time() - t0, '')
                    pending = {}
                    break
                time.sleep(0.005)
                continue
            for s in done:
                p = pending.pop(s)
                out, err = p.communicate()
                dt = time.time() - t0
                v = _classify((out or '').strip(), (err or '').strip(), dt, timeout)
                outputs[s] = (v, dt, (out or '').strip() if v != 'error' else ((out or '') + '\n' + (err or ''))[:2000])
                if v in ('sat', 'unsat'):
                    if verdict is None:
                        verdict, by = v, s
                    elif verdict != v:
                        verdict, by = 'error', 'DISAGREE:%s/%s' % (by, s)
            if verdict in ('sat', 'unsat') and tier == 'quick':
                for s, p in pending.items():
                    p.kill()
                    try:
                        p.communicate(timeout=5)
                    except Exception:
                        pass
                    outputs[s] = ('killed', time.time() - t0, '')
                pending = {}
    finally:
        for p in procs.values():
            if p.poll() is None:
                p.kill()
        shutil.rmtree(d, ignore_errors=True)
    secs = time.time() - t0
    if verdict is None:
        vs = [o[0] for o in outputs.values()]
        if 'unknown' in vs:
            verdict = 'unknown'
        elif 'timeout' in vs:
            verdict = 'timeout'
        else:
            verdict = 'error'
        by = ','.join('%s=%s' % (k, o[0]) for k, o in outputs.items())
    return Result(verdict, by, secs, outputs)


def solve_many(jobs, timeout=30, tier='quick', progress=None):
    """jobs: list of (key, smt_text).  Returns {key: Result}.  Runs MAXPAR queries at once."""
    res = {}
    with ThreadPoolExecutor(max_workers=MAXPAR) as ex:
        futs = {}
        for job in jobs:
            key, text = job[0], job[1]
            pre = job[2] if len(job) > 2 else None
            futs[ex.submit(solve, text, timeout, tier, None, pre)] = key
        for f in futs:
            pass
        for f, key in futs.items():
            res[key] = f.result()
            if progress:
                progress(key, res[key])
    # second chance for a few time-outs (quick tier): the first pass runs MAXPAR queries x 3 solvers at once, possibly next to other
    # checks; a query that needs 10 s alone can miss a 25 s budget there.  Retried two at a time with twice the budget once the pool
    # is idle, so a verdict does not flip with the load.  Bounded: at most RETRY_MAX queries (a changed function typically times
    # out on several obligations at once - those stay undecided).
    if tier == 'quick':
        texts = {job[0]: job[1] for job in jobs}
        pres = {job[0]: (job[2] if len(job) > 2 else None) for job in jobs}
        late = [k for k, r in res.items() if r.verdict == 'timeout'][:RETRY_MAX + 1]
        if 0 < len(late) <= RETRY_MAX:
            with ThreadPoolExecutor(max_workers=2) as ex:
                # all stages again, the short ones with a longer budget too: some obligations are only ever discharged with the
                # specification functions opaque, and miss that stage's 3 s when the machine is busy
                futs = {ex.submit(solve, texts[k], timeout * 2, tier, None, pres[k], 20): k for k in late}
                for f, k in futs.items():
                    r = f.result()
                    if r.verdict in ('unsat', 'sat'):
                        res[k] = r
    return res


_VAL = re.compile(r'\(\s*\(')


def parse_get_value(out):
    """parse the answer of one (get-value (...)) with scalar Int/Bool/String terms; returns list of python values."""
    # tokenise s-expression
    toks = re.findall(r'"(?:[^"]|"")*"|\(|\)|[^\s()]+', out)
    pos = 0

    def parse():
        nonlocal pos
        t = toks[pos]
        pos += 1
        if t == '(':
            lst = []
            while toks[pos] != ')':
                lst.append(parse())
            pos += 1
            return lst
        return t
    vals = []
    try:
        tree = parse()
    except IndexError:
        return None
    for pair in tree:
        if not isinstance(pair, list) or len(pair) != 2:
            return None
        vals.append(_pyval(pair[1]))
    return vals


def _pyval(v):
    if isinstance(v, list):
        if len(v) == 2 and v[0] == '-':
            x = _pyval(v[1])
            return -x if isinstance(x, int) else None
        return v
    if v == 'true':
        return True
    if v == 'false':
        return False
    if v.startswith('"'):
        return v[1:-1].replace('""', '"')
    try:
        return int(v)
    except ValueError:
        return v
