"""Layer-B lemmas stated directly in SMT terms, proved by (strong) induction over an integer variable.

A lemma is   forall vars. stmt(vars).   With `induct=(var, base)` the proof obligation is
    (var > base  =>  forall other vars. stmt[var := var-1])   |=   stmt(vars)
which is sound by induction on var from `base` upwards (for var <= base no hypothesis is available).
`uses` names lemmas whose quantified statements are added as hypotheses (they have their own obligations).
A proved lemma can be handed to function contracts as a quantified hypothesis (with explicit patterns).
"""
from . import terms as t
from .exec import Obligation

LEMMAS = {}


class Lemma:
    def __init__(self, name, vars_, stmt, induct=None, uses=(), pats=None, tags=(), hints=None, doc='', ih_instances=None, defs=None, traits=None):
        self.name, self.vars, self.stmt, self.induct, self.uses = name, list(vars_), stmt, induct, tuple(uses)
        self.ih_instances = ih_instances
        self.traits = traits      # ground instances of interface traits ASSUMED of sub-constructs (hypotheses of the property, listed in the evidence)
        self.defs = defs          # instances of definitions used as hypotheses; each is its own obligation (proved from the definitions)
        self.pats, self.tags, self.hints, self.doc = pats, tuple(tags), hints, doc
        LEMMAS[name] = self

    def _vars(self, suffix=''):
        return {n: t.var(n + suffix, s) for n, s in self.vars}

    def as_hyp(self):
        vs = self._vars('!q')
        body = self.stmt(vs)
        pats = self.pats(vs) if self.pats else ()
        return t.forall(list(vs.values()), body, pats=pats)

    def obligations(self):
        vs = self._vars()
        hyps = [LEMMAS[u].as_hyp() for u in self.uses]
        if self.induct:
            var, base = self.induct
            if self.ih_instances:
                # explicit instances of the induction hypothesis: the induction variable is var-1, the other variables
                # are arbitrary terms (the lemma is universally quantified over them)
                for inst in self.ih_instances(vs):
                    inst = dict(inst)
                    inst[var] = t.sub(vs[var], t.ONE)
                    hyps.append(t.implies(t.gt(vs[var], t.I(base)), self.stmt(inst)))
            else:
                others = {n: t.var(n + '!ih', s) for n, s in self.vars if n != var}
                inst = dict(others)
                inst[var] = t.sub(vs[var], t.ONE)
                ih = self.stmt(inst)
                if others:
                    pats = self.pats(inst) if self.pats else ()
                    ih = t.forall(list(others.values()), ih, pats=pats)
                hyps.append(t.implies(t.gt(vs[var], t.I(base)), ih))
        if self.hints:
            hyps.extend(self.hints(vs))
        if self.traits:
            hyps.extend(self.traits(vs))
        out = []
        if self.defs:
            for i, d in enumerate(self.defs(vs)):
                out.append(Obligation('lemma/%s/definition-instance-%d' % (self.name, i), [], d, kind='lemma-def', tags=self.tags))
                hyps.append(d)
        return out + [Obligation('lemma/' + self.name, hyps, self.stmt(vs), kind='lemma', tags=self.tags)]
