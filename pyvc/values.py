"""Symbolic Python values used by the executor.

Every value is immutable; mutable Python objects (lists, bytearrays, dicts, streams, containers) live in the
state's store and are referred to by VRef so that state cloning at forks is cheap and aliasing is exact.
"""
from . import terms as t
from .terms import T, I, Bc, S

_counter = [0]


def fresh_name(base):
    _counter[0] += 1
    return '%s!%d' % (base, _counter[0])


def fresh(base, sort):
    return t.var(fresh_name(base), sort)


class Value:
    kind = '?'

    def __repr__(self):
        return '%s(%s)' % (type(self).__name__, ', '.join('%s=%r' % (k, v) for k, v in self.__dict__.items()))


class VInt(Value):
    kind = 'int'

    def __init__(self, term):
        assert isinstance(term, T) and term.sort == t.INT, term
        self.t = term


class VBool(Value):
    kind = 'bool'

    def __init__(self, term):
        assert isinstance(term, T) and term.sort == t.BOOL, term
        self.t = term


class VNone(Value):
    kind = 'none'


NONE = VNone()


class VStr(Value):
    """str.  t is a String term, or None for an opaque text (error messages, reprs) that nothing may depend on."""
    kind = 'str'

    def __init__(self, term=None):
        self.t = term


class VBytes(Value):
    """immutable bytes: a view (array, offset, length).  Elements are ints in 0..255 (asserted where created)."""
    kind = 'bytes'

    def __init__(self, arr, off, ln):
        self.arr, self.off, self.len = arr, off, ln

    def at(self, i):
        return t.select(self.arr, t.add(self.off, i))


class VTuple(Value):
    kind = 'tuple'

    def __init__(self, items):
        self.items = tuple(items)


class VRef(Value):
    """reference to a mutable object in the store (list, bytearray, dict, stream, container, user object)"""
    kind = 'ref'

    def __init__(self, loc, okind):
        self.loc, self.okind = loc, okind


class VDyn(Value):
    """a value of statically unknown Python type: term of the SMT datatype Val"""
    kind = 'dyn'

    def __init__(self, term):
        assert term.sort == t.VAL, term
        self.t = term


class VExc(Value):
    """exception instance: class code (Int term), path (Value: VStr / VNone / VDyn), optional payload"""
    kind = 'exc'

    def __init__(self, cls, path=NONE, origin=None, explicit_path=False, from_stream=False):
        self.cls, self.path, self.origin = cls, path, origin
        self.explicit_path = explicit_path
        self.from_stream = from_stream


class VObj(Value):
    """an object with symbolic immutable fields (self of the method under verification, module singletons)"""
    kind = 'obj'

    def __init__(self, cls, fields, ident=None):
        self.cls, self.fields, self.ident = cls, fields, ident


class VSub(Value):
    """a sub-construct known only through the interface contract.  ident: Int term naming it."""
    kind = 'sub'

    def __init__(self, ident, label='sub', known_cls=None):
        self.ident, self.label, self.known_cls = ident, label, known_cls


class VParam(Value):
    """construct parameter that is either a constant of `pkind` or a callable of the context (E5)"""
    kind = 'param'

    def __init__(self, name, pkind, ident, callable_t=None, const=None):
        self.name, self.pkind, self.ident = name, pkind, ident
        self.callable_t = callable_t if callable_t is not None else fresh('callable_' + name, t.BOOL)
        self.const = const


class VInstanceState(Value):
    """an attribute of a construct object that the real __init__ assigns but no contract declares: state kept on the instance.
    Nothing is known about it; a store through it is a store into the construct (C17 frame)"""
    kind = 'instance-state'

    def __init__(self, cls, attr):
        self.cls, self.attr = cls, attr


class VFunc(Value):
    """closure / lambda / bound method / builtin known by name"""
    kind = 'func'

    def __init__(self, name, node=None, closure=None, bound=None, model=None):
        self.name, self.node, self.closure, self.bound, self.model = name, node, closure, bound, model


class VClass(Value):
    kind = 'class'

    def __init__(self, name):
        self.name = name


class VModule(Value):
    kind = 'module'

    def __init__(self, name):
        self.name = name


class VIter(Value):
    """iteration descriptor produced by range/enumerate/reversed/count/items (consumed by for-loops)"""
    kind = 'iter'

    def __init__(self, what, **kw):
        self.what = what
        self.__dict__.update(kw)


class Unbound(Value):
    kind = 'unbound'


UNBOUND = Unbound()


class MaybeBound(Value):
    """local that is bound only when `cond` holds (havocked loop-carried locals)"""
    kind = 'maybe'

    def __init__(self, value, cond):
        self.value, self.cond = value, cond


class Raised:
    """marker wrapping an exception flowing out of expression evaluation"""

    def __init__(self, exc):
        self.exc = exc


# ---------------------------------------------------------------- store objects (immutable snapshots, replaced on mutation)
class OList:
    """python list.  Either concrete (items = tuple of Values) or symbolic (arr term of sort ARR/'VArr', len term)."""

    def __init__(self, items=None, arr=None, ln=None, ekind='int', cls='list'):
        self.items, self.arr, self.len, self.ekind, self.cls = items, arr, ln, ekind, cls

    @property
    def concrete(self):
        return self.items is not None


class OBytearray:
    def __init__(self, arr, ln):
        self.arr, self.len = arr, ln


class ODict:
    """python dict: concrete keys (python hashables), or symbolic: has : (Array Val Bool), get : (Array Val Val)"""

    def __init__(self, items=None, has=None, get=None):
        self.items = dict(items or {}) if has is None else None
        self.has, self.get = has, get


class OIter:
    """iterator object created by iter(x): an Iteration and the number of items already taken"""

    def __init__(self, it, idx):
        self.it, self.idx = it, idx


class OStream:
    """stream object.  model: 'bytesio' (exact io.BytesIO), 'adv' (adversarial), 'offsets' (BytesIOWithOffsets),
    'restreamed' (RestreamedBytesIO real object fields).  buf/len/pos terms; parent/offset for 'offsets'."""

    def __init__(self, model, buf=None, ln=None, pos=None, parent=None, offset=None, ident=None, extra=None):
        self.model, self.buf, self.len, self.pos = model, buf, ln, pos
        self.parent, self.offset, self.ident = parent, offset, ident
        self.extra = extra or {}

    def replace(self, **kw):
        d = dict(model=self.model, buf=self.buf, ln=self.len, pos=self.pos, parent=self.parent, offset=self.offset,
                 ident=self.ident, extra=dict(self.extra))
        d.update(kw)
        return OStream(**d)


class OObject:
    """mutable user object with named fields (RestreamedBytesIO instance, generic)"""

    def __init__(self, cls, fields):
        self.cls, self.fields = cls, dict(fields)


class OContainer:
    """construct.lib.Container living in the SMT heap: addr is an Int term"""

    def __init__(self, addr, local=False):
        self.addr = addr
        self.local = local        # allocated by the function under verification
