"""Native evaluation of contracts on the real code: a contract-driven run-time checker used for replay and for the
directed search for a failing input after an obligation failed.

The contract's guards and ensures clauses are pyvc terms over the symbols created by the contract's setup.  Here those
symbols are bound to concrete Python values, the REAL class is instantiated with real (context-independent) stub
sub-constructs, the real method is called, and the clauses are evaluated with the interface functions P_*/B_*/Z_*
interpreted by running the real sub-constructs.  Clauses that mention the context heap are skipped (reported as
not evaluated); everything else is decided natively.
"""
import io
import random

from . import terms as t
from . import prelude
from .values import *  # noqa
from .state import State
from .exec import Engine


class Unsupported(Exception):
    pass


class Arr:
    """integer array: explicit entries over a default"""

    def __init__(self, entries=None, default=0):
        self.e = dict(entries or {})
        self.d = default

    def get(self, i):
        return self.e.get(i, self.d)

    def store(self, i, v):
        a = Arr(self.e, self.d)
        a.e[i] = v
        return a

    @staticmethod
    def of_bytes(b, off=0):
        return Arr({off + i: x for i, x in enumerate(b)})


class FnArr(Arr):
    """array given by a python function of the index (native twin of an axiomatized array function)"""

    def __init__(self, fn):
        self.fn = fn
        self.e, self.d = {}, 0

    def get(self, i):
        return self.fn(i)

    def store(self, i, v):
        base = self
        return FnArr(lambda j, _i=i, _v=v: _v if j == _i else base.get(j))


AXIOM_PY = {}       # name -> python function(evaluated args...) -> Arr


def val_of(py):
    """python value -> Val tuple"""
    if py is None:
        return ('VNone',)
    if isinstance(py, bool):
        return ('VBool', py)
    if isinstance(py, int):
        return ('VInt', int(py))
    if isinstance(py, (bytes, bytearray)):
        return ('VBytes', Arr.of_bytes(bytes(py)), 0, len(py))
    if isinstance(py, str):
        return ('VStr', str(py))
    if isinstance(py, float):
        import struct
        return ('VOpq', hash(struct.pack('>d', py)) % (2 ** 31), py)
    return ('VOpq', id(py) % (2 ** 31), py)


def py_of(v):
    if v[0] == 'VNone':
        return None
    if v[0] in ('VBool', 'VInt', 'VStr'):
        return v[1]
    if v[0] == 'VBytes':
        return bytes(v[1].get(v[2] + i) % 256 for i in range(max(v[3], 0)))
    if v[0] == 'VOpq' and len(v) > 2:
        return v[2]
    raise Unsupported('py_of %r' % (v[:1],))


def pyeq(a, b):
    try:
        return py_of(a) == py_of(b)
    except Unsupported:
        return a[:2] == b[:2]


class Evaluator:
    RANGE = 96

    def __init__(self, env, funcs):
        self.env = env
        self.funcs = funcs

    def ev(self, x):
        op, a = x.op, x.args
        if op in ('int', 'bool', 'strlit'):
            return a[0]
        if op == 'var':
            n = a[0].strip('|')
            if n in self.env:
                return self.env[n]
            raise Unsupported('unbound symbol %s' % n)
        if op == 'raw':
            raise Unsupported('raw term')
        if op == '+':
            return sum(self.ev(y) for y in a)
        if op == '-':
            return -self.ev(a[0]) if len(a) == 1 else self.ev(a[0]) - self.ev(a[1])
        if op == '*':
            r = 1
            for y in a:
                r *= self.ev(y)
            return r
        if op == 'div':
            n, d = self.ev(a[0]), self.ev(a[1])
            if d == 0:
                return 0
            q = n // d if d > 0 else -(n // -d)
            return q
        if op == 'mod':
            n, d = self.ev(a[0]), self.ev(a[1])
            return n % abs(d) if d != 0 else n
        if op in ('<', '<=', '>', '>='):
            l, r = self.ev(a[0]), self.ev(a[1])
            return {'<': l < r, '<=': l <= r, '>': l > r, '>=': l >= r}[op]
        if op == '=':
            l, r = self.ev(a[0]), self.ev(a[1])
            return self.equal(l, r, a[0].sort)
        if op == 'not':
            return not self.ev(a[0])
        if op == 'and':
            return all(self.ev(y) for y in a)
        if op == 'or':
            return any(self.ev(y) for y in a)
        if op == '=>':
            return (not self.ev(a[0])) or self.ev(a[1])
        if op == 'ite':
            return self.ev(a[1]) if self.ev(a[0]) else self.ev(a[2])
        if op == 'select':
            arr, i = self.ev(a[0]), self.ev(a[1])
            if isinstance(arr, Arr):
                return arr.get(i)
            if isinstance(arr, dict):
                if i in arr:
                    return arr[i]
                raise Unsupported('select on partial map')
            raise Unsupported('select')
        if op == 'store':
            arr = self.ev(a[0])
            if isinstance(arr, Arr):
                return arr.store(self.ev(a[1]), self.ev(a[2]))
            raise Unsupported('store')
        if op == 'constarr':
            return Arr({}, self.ev(a[0]))
        if op == 'forall':
            vars_, body, pats = a
            if len(vars_) != 1 or vars_[0].sort != t.INT:
                raise Unsupported('quantifier shape')
            name = vars_[0].args[0].strip('|')
            saved = self.env.get(name, None)
            try:
                for i in range(-2, self.RANGE):
                    self.env[name] = i
                    if not self.ev(body):
                        return False
                return True
            finally:
                if saved is None:
                    self.env.pop(name, None)
                else:
                    self.env[name] = saved
        if op == 'str.++':
            return ''.join(self.ev(y) for y in a)
        if op == 'str.prefixof':
            return self.ev(a[1]).startswith(self.ev(a[0]))
        if op == 'str.len':
            return len(self.ev(a[0]))
        if op in t.CTORS:
            return (op,) + tuple(self.ev(y) for y in a)
        if op in t._SEL:
            c, i = t._SEL[op]
            v = self.ev(a[0])
            if v[0] != c:
                return {t.INT: 0, t.BOOL: False, t.STR: '', t.ARR: Arr()}.get(x.sort, 0)
            return v[1 + i]
        if op.startswith('(_ is '):
            return self.ev(a[0])[0] == op[6:-1]
        if op == 'isint':
            return self.ev(a[0])[0] in ('VInt', 'VBool')
        if op == 'toint':
            v = self.ev(a[0])
            return int(v[1]) if v[0] in ('VInt', 'VBool') else 0
        if op == 'truthy':
            v = self.ev(a[0])
            try:
                return bool(py_of(v))
            except Unsupported:
                return True
        if op == 'pyeq':
            return pyeq(self.ev(a[0]), self.ev(a[1]))
        if op == 'beq':
            A, ao, B, bo, n = [self.ev(y) for y in a]
            return all(A.get(ao + i) == B.get(bo + i) for i in range(max(n, 0)))
        if op == 'shift':
            arr, k = self.ev(a[0]), self.ev(a[1])
            return Arr({i - k: v for i, v in arr.e.items()}, arr.d)
        if op == 'pow2':
            k = self.ev(a[0])
            return 2 ** k if k > 0 else 1
        if op == 'bxor':
            return (self.ev(a[0]) % 256) ^ (self.ev(a[1]) % 256)
        if op == 'bxor_big':
            return self.ev(a[0]) ^ self.ev(a[1])
        if op == 'bor':
            return self.ev(a[0]) | self.ev(a[1])
        if op == 'band':
            return self.ev(a[0]) & self.ev(a[1])
        if op in self.funcs:
            return self.funcs[op](self, *[self.ev(y) for y in a])
        if op in AXIOM_PY:
            return AXIOM_PY[op](*[self.ev(y) for y in a])
        spec = prelude.REGISTRY.get(op)
        if spec is not None and spec.py is not None:
            args = [self.ev(y) for y in a]
            args = [ArrView(z) if isinstance(z, Arr) else z for z in args]
            return spec.py(*args)
        raise Unsupported('operator %s' % op)

    def equal(self, l, r, sort):
        if isinstance(l, FnArr) or isinstance(r, FnArr):
            return all(l.get(k) == r.get(k) for k in range(-2, self.RANGE))
        if isinstance(l, Arr) and isinstance(r, Arr):
            keys = set(l.e) | set(r.e)
            return l.d == r.d and all(l.get(k) == r.get(k) for k in keys)
        if sort == t.VAL:
            if l[0] == 'VBytes' and r[0] == 'VBytes':
                return py_of(l) == py_of(r)
            return l[:2] == r[:2] if l[0] != 'VOpq' else (l[0] == r[0] and l[1] == r[1])
        if isinstance(l, dict) or isinstance(r, dict):
            raise Unsupported('heap equality')
        return l == r


class ArrView:
    """list-like view used by the python twins of specification functions"""

    def __init__(self, arr):
        self.a = arr

    def __getitem__(self, i):
        return self.a.get(i)
