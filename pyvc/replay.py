"""Counter-model extraction and native replay.

A failed obligation that came back `sat` is re-run on the solver that answered, asking for the values of the named
input symbols (scalars first, then the bytes of each buffer up to a cap).  The concrete inputs are handed to the
property's native oracle, which calls the REAL function from the tree the VCs came from (PYVC_REPO) and decides
whether the property's own statement is violated on that input.
"""
import importlib
import io
import json
import os
import re
import subprocess
import sys
import tempfile
import shutil

from . import solve


def input_symbols(text):
    """declared constants of the query that are inputs (not havocked/fresh intermediates)"""
    syms = []
    for m in re.finditer(r'\(declare-const (\|?[^\s|()]+\|?) ([^\n]+)\)\n', text):
        syms.append((m.group(1), m.group(2).strip()))
    return syms


def run_get_value(text, solver, exprs, timeout=20):
    q = text.replace('(check-sat)\n', '(check-sat)\n(get-value (%s))\n' % ' '.join(exprs))
    v, dt, out, err = solve.run_one(solver, q, timeout)
    if v != 'sat':
        return None
    body = out.split('\n', 1)[1] if '\n' in out else ''
    return solve.parse_get_value(body)


def extract(text, solver, max_bytes=48):
    """-> dict symbol -> python value (ints, bools, strings; arrays as list of the first elements when a matching
    *_len symbol exists)"""
    if solver not in solve.SOLVERS:
        return None
    syms = input_symbols(text)
    scal = [(n, s) for n, s in syms if s in ('Int', 'Bool', 'String')]
    vals = {}
    if scal:
        got = run_get_value(text, solver, [n for n, _ in scal])
        if got is None:
            return None
        for (n, s), v in zip(scal, got):
            vals[n.strip('|')] = v
    # pin scalars, then read arrays
    pins = []
    for n, s in scal:
        v = vals[n.strip('|')]
        if isinstance(v, bool):
            pins.append('(assert (= %s %s))' % (n, 'true' if v else 'false'))
        elif isinstance(v, int):
            pins.append('(assert (= %s %s))' % (n, v if v >= 0 else '(- %d)' % -v))
    pinned = text.replace('(check-sat)\n', '\n'.join(pins) + '\n(check-sat)\n')
    arrays = [(n, s) for n, s in syms if s == '(Array Int Int)']
    for n, s in arrays:
        base = n.strip('|')
        stem = re.sub(r'(_arr|_buf)(![0-9]+)?$', '', base)
        ln = None
        for k, v in vals.items():
            if k.startswith(stem + '_len') and isinstance(v, int):
                ln = v
        if ln is None:
            continue
        ln = max(0, min(ln, max_bytes))
        if ln == 0:
            vals[base] = []
            continue
        got = run_get_value(pinned, solver, ['(select %s %d)' % (n, i) for i in range(ln)])
        if got is not None:
            vals[base] = [x if isinstance(x, int) else 0 for x in got]
    # Val-sorted inputs: ask for tester/selector projections
    for n, s in syms:
        if s == 'Val':
            got = run_get_value(pinned, solver, ['(isint %s)' % n, '(toint %s)' % n, '((_ is VNone) %s)' % n, '((_ is VBytes) %s)' % n,
                                                 '((_ is VStr) %s)' % n, '((_ is VBool) %s)' % n])
            if got is None:
                # helper functions may not be declared in this query
                got = run_get_value(pinned, solver, ['((_ is VInt) %s)' % n, '(ival %s)' % n, '((_ is VNone) %s)' % n, '((_ is VBytes) %s)' % n,
                                                     '((_ is VStr) %s)' % n, '((_ is VBool) %s)' % n])
            if got is not None:
                isint, iv, isnone, isbytes, isstr, isbool = got
                if isnone is True:
                    vals[n.strip('|')] = None
                elif isint is True:
                    vals[n.strip('|')] = bool(iv) if isbool is True else iv
                elif isbytes is True:
                    vals[n.strip('|')] = ('bytes',)
                elif isstr is True:
                    vals[n.strip('|')] = ('str',)
                else:
                    vals[n.strip('|')] = ('opaque',)
    return vals


def by_stem(vals, stem):
    """value of the input whose symbol starts with `stem` (symbols carry a !N suffix)"""
    for k, v in vals.items():
        if re.sub(r'![0-9]+$', '', k) == stem:
            return v
    return None


def import_repo():
    """import construct from the tree under verification"""
    repo = os.environ.get('PYVC_REPO', '/repo')
    for m in [k for k in sys.modules if k == 'construct' or k.startswith('construct.')]:
        del sys.modules[m]
    if repo not in sys.path or sys.path[0] != repo:
        sys.path.insert(0, repo)
    import construct
    return construct
