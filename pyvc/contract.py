"""Sidecar contracts: cases (guard / outcome kind / ensures), requires, loop specifications, and the two uses of a
contract: VERIFY (the real body against the contract) and USE (at a call site, instead of the callee's body).

A contract names a repository function by 'module:Qual.name'; it never imports it.  Parameter binding is read from
the real signature each run, so a changed signature is noticed.
"""
import ast

from . import terms as t
from .terms import I, Bc
from .values import *  # noqa
from .state import State, OutOfReach
from .exec import Engine, Obligation, LoopSpec  # noqa
from . import prelude


class View:
    """arguments + state snapshot, as seen by guards and clauses"""

    def __init__(self, eng, st, selfv, args):
        self.eng, self.st, self.self, self.args = eng, st, selfv, args
        self.result = None
        self.exc = None

    def __getitem__(self, name):
        return self.args[name]

    def obj(self, name_or_ref):
        v = self.args[name_or_ref] if isinstance(name_or_ref, str) else name_or_ref
        return self.st.get(v) if isinstance(v, VRef) else v

    def int(self, name):
        iv, ok = self.eng.as_int(self.args[name], self.st)
        return iv

    def isint(self, name):
        iv, ok = self.eng.as_int(self.args[name], self.st)
        return ok


class Case:
    def __init__(self, name, kind, guard, ensures=None, rkind=None, exc=None, path=None, modifies=(), tags=(), model=None):
        self.name, self.kind, self.guard = name, kind, guard
        self.model = model            # None = any stream model; else the case applies when the stream argument has this model
        self.ensures = ensures or (lambda pre, post: [])
        self.rkind = rkind            # use mode: (eng, st, pre) -> fresh result Value
        self.exc = [exc] if isinstance(exc, str) else exc       # raise: allowed class names
        self.path = path              # raise: name of the argument whose value is the exception path ('path'), or None
        self.modifies = tuple(modifies)   # names of arguments (streams, bytearrays) whose state the call may change
        self.tags = tuple(tags)


def rk_int(eng, st, pre):
    return VInt(fresh('res', t.INT))


def rk_bool(eng, st, pre):
    return VBool(fresh('res', t.BOOL))


def rk_bytes(eng, st, pre):
    # a fresh *view*: array, offset and length are all unknown (the ensures clauses pin them)
    arr, off, ln = fresh('res_arr', t.ARR), fresh('res_off', t.INT), fresh('res_len', t.INT)
    st.assume(t.ge(ln, t.ZERO))
    eng.assume_byte_range(st, arr, off, ln)
    return VBytes(arr, off, ln)


def rk_none(eng, st, pre):
    return NONE


def rk_dyn(eng, st, pre):
    return VDyn(fresh('res', t.VAL))


def rk_list(eng, st, pre):
    """a fresh ListContainer whose length and items the ensures clauses pin"""
    arr, ln = fresh('res_items', 'VArr'), fresh('res_len', t.INT)
    st.assume(t.ge(ln, t.ZERO))
    return st.alloc(OList(arr=arr, ln=ln, ekind='val', cls='ListContainer'), 'list')


def rk_container(eng, st, pre):
    """a container whose address and entries the ensures clauses pin"""
    a = fresh('res_container', t.INT)
    st.assume(t.ge(a, t.ZERO))
    return st.alloc(OContainer(a), 'container')


def _load_locals_lock():
    import json, os
    p = os.path.join(os.path.dirname(os.path.dirname(os.path.abspath(__file__))), 'locals.lock')
    try:
        return json.load(open(p))
    except Exception:
        return {}


LOCALS_LOCK = _load_locals_lock()       # qualified function name -> its locals in order of first binding, recorded at relock time
CALLER_GHOST = {'LE', 'loop_k', 'stopped', 'left_by_break', 'gr_stopfield', 'first_sub_ctx', 'first_sub_path'}
USE_LOG = set()      # contracts applied at call sites since the log was last cleared (dependency closure of a proof)


STREAM_HELPERS = {'stream_read', 'stream_read_entire', 'stream_write', 'stream_seek', 'stream_tell', 'stream_size', 'stream_iseof'}


class FnContract:
    def __init__(self, qual, cases, requires=None, loops=None, setup=None, tags=(), doc='', stream_models=('bytesio',),
                 pure=False, self_fields=None, lemmas=()):
        self.qual, self.cases, self.loops, self.tags, self.doc = qual, cases, loops or {}, tuple(tags), doc
        self.requires = requires or (lambda pre: [])
        self.setup = setup
        self.stream_models = stream_models
        self.self_fields = self_fields
        self.stream_arg = 'stream'
        self.lemmas = tuple(lemmas)
        self.iface = None
        self.default_loop = None
        self.modifies_heap = False
        self.heap_pure = True          # helper functions (stream access, conversions) never touch the scope heap; construct methods do
        self.generic = False
        self.variants = [None]

    # ------------------------------------------------------------------ signature
    def bind(self, eng, node, selfv, args, kws, st):
        a = node.args
        names = [x.arg for x in a.posonlyargs + a.args]
        is_method = bool(names) and names[0] == 'self'
        bound = {}
        pos = list(args)
        if is_method:
            bound['self'] = selfv
            names = names[1:]
        if len(pos) > len(names):
            raise OutOfReach('too many arguments for %s' % self.qual)
        for n, v in zip(names, pos):
            bound[n] = v
        defaults = a.defaults
        for i, n in enumerate(names):
            if n in bound:
                continue
            if n in kws:
                bound[n] = kws[n]
                continue
            di = i - (len(names) - len(defaults))
            if di < 0:
                raise OutOfReach('missing argument %s for %s' % (n, self.qual))
            d = defaults[di]
            if not isinstance(d, ast.Constant):
                # e.g. io.SEEK_SET
                res = eng.ev(d, st)
                bound[n] = res[0][1]
            else:
                bound[n] = eng.from_const(d.value, st)
        if a.kwarg is not None:
            # **contextkw: the mapping passed with ** at the call site, or an empty one (a fresh container without entries)
            kw = kws.get('**')
            if kw is None:
                if eng.models.interface is None:
                    raise OutOfReach('**%s without an interface' % a.kwarg.arg)
                (st2, kw), = eng.models.interface.new_container(eng, [], {}, st)
            bound[a.kwarg.arg] = kw
        return bound

    def cases_for(self, pre):
        out = []
        for c in self.cases:
            if c.model is not None:
                sv = pre.args.get(self.stream_arg)
                o = pre.st.get(sv) if isinstance(sv, VRef) else None
                m = getattr(o, 'model', None)
                if m == 'offsets':
                    m = 'bytesio'
                if m != c.model:
                    continue
            out.append(c)
        return out

    # ------------------------------------------------------------------ USE
    def use(self, eng, st, selfv, args, kws):
        USE_LOG.add(self.qual)
        node = eng.src.find(self.qual)
        bound = self.bind(eng, node, selfv, args, kws, st)
        if not self.generic and self.qual in GENERIC and 'bytesio' in self.stream_models and 'adv' not in self.stream_models:
            sv = bound.get(self.stream_arg)
            o = st.get(sv) if isinstance(sv, VRef) else None
            if getattr(o, 'model', None) == 'adv':
                # functional clauses speak about buffers: under the adversarial model only the cross-cutting contract applies
                return GENERIC[self.qual].use(eng, st, selfv, args, kws)
        kinds = getattr(self.setup, 'kinds', None) or {}
        for an, kd in kinds.items():
            v = bound.get(an)
            if isinstance(v, VParam):
                v = eng.models.param_const(eng, v, st) if st.known(t.not_(v.callable_t)) is True else v
            if isinstance(v, VDyn) and kd in ('bytes', 'int', 'bool'):
                if kd == 'bytes':
                    cond = t.app('(_ is VBytes)', t.BOOL, v.t)
                    nv = VBytes(t.app('barr', t.ARR, v.t), t.app('boff', t.INT, v.t), t.app('blen', t.INT, v.t))
                elif kd == 'int':
                    cond = t.app('isint', t.BOOL, v.t)
                    nv = VInt(t.app('toint', t.INT, v.t))
                else:
                    cond = t.TRUE
                    nv = VBool(t.app('truthy', t.BOOL, v.t))
                eng.emit(st, '%s/call %s/argument-%s-is-%s' % (eng.fnname, self.qual.split(':')[1], an, kd), cond, kind='call-pre', tags=self.tags)
                st.assume(cond)
                if kd == 'bytes':
                    st.assume(t.ge(nv.len, t.ZERO))
                    eng.assume_byte_range(st, nv.arr, nv.off, nv.len)
                bound[an] = nv
            elif isinstance(v, VRef) and kd == 'bytes':
                b = eng.models.as_bytes(eng, v, st)
                if b is not None:
                    bound[an] = b
            elif kd == 'bool' and v is not None and not isinstance(v, VBool):
                bound[an] = VBool(eng.truth(v, st))
            elif kd == 'dyn' and v is not None and not isinstance(v, VDyn):
                dv = eng.to_dyn(v, st)
                o_ = st.get(v) if isinstance(v, VRef) else None
                if isinstance(o_, OList) and o_.items is None and o_.ekind == 'val':
                    # a list object handed over as a value: its length and its items are what iterating it yields (P: list semantics)
                    from . import prelude as _pl
                    _pl.declare_fun('dyn_item', [t.VAL, t.INT], t.VAL)
                    _pl.declare_fun('dyn_len', [t.VAL], t.INT)
                    _pl.declare_fun('dyn_sized', [t.VAL], t.BOOL)
                    jq = t.var('lj!', t.INT)
                    st.assume(t.and_(t.app('dyn_sized', t.BOOL, dv), t.eq(t.app('dyn_len', t.INT, dv), o_.len),
                                     t.forall([jq], t.eq(t.app('dyn_item', t.VAL, dv, jq), t.T(t.VAL, 'select', (o_.arr, jq))), pats=[[t.app('dyn_item', t.VAL, dv, jq)]])))
                bound[an] = VDyn(dv)
        pre = View(eng, st, selfv, bound)
        for label, cond in self.requires(pre):
            eng.emit(st, '%s/call %s/requires/%s' % (eng.fnname, self.qual.split(':')[1], label), cond, kind='call-pre', tags=self.tags)
            st.assume(cond)
        out = []
        # ghost entries that describe the CALLER's own execution (its loop-entry state, its loop counter, how its loop was left) say
        # nothing about the callee: its clauses see a clean slate and get fresh existentials; the caller's entries are put back
        hidden = {k: st.ghost.pop(k) for k in list(st.ghost) if k in CALLER_GHOST or k.startswith('loop_k:')}

        def restore(s_):
            for k in [k for k in s_.ghost if k in CALLER_GHOST or k.startswith('loop_k:')]:
                del s_.ghost[k]
            s_.ghost.update(hidden)
        for case in self.cases_for(pre):
            g = case.guard(pre)
            k = st.known(g)
            if k is False:
                continue
            s2 = st.clone()
            s2.assume(g)
            if s2.infeasible():
                continue
            pre2 = View(eng, s2.clone(), selfv, bound)
            # havoc what the call may modify
            from .builtins import havoc_object
            for name in case.modifies:
                v = bound.get(name)
                if isinstance(v, VRef):
                    havoc_object(eng, s2, v, 'post_' + name)
            # the scope heap after the call is whatever the clauses say it is: it is havoced unless the contract declares that the
            # function leaves it alone (heap_pure); a clause about the post heap then constrains it instead of silently
            # restricting the caller's initial heap
            iface_ = eng.models.interface
            if iface_ is not None and 'H' in s2.ghost and (self.modifies_heap or not getattr(self, 'heap_pure', False)):
                cv = bound.get('context', bound.get('ctx'))
                co = s2.get(cv) if isinstance(cv, VRef) else None
                if not self.modifies_heap and type(co).__name__ == 'OContainer':
                    # the frame every construct method is verified against (generic C17 contract): the context argument changes at
                    # most at '_index', other existing containers are unchanged
                    iface_.apply_heap_outcome(eng, s2, fresh('H', 'Heap'), fresh('D', 'Dom'), co.addr)
                else:
                    iface_.havoc_heap(eng, s2)
            post = View(eng, s2, selfv, bound)
            if case.kind == 'return':
                res = case.rkind(eng, s2, pre2) if case.rkind else NONE
                post.result = res
                for cl in case.ensures(pre2, post):
                    s2.assume(cl[1])
                restore(s2)
                if not s2.infeasible():
                    s2.ghost['calls'] = s2.ghost.get('calls', ()) + ((self.qual, bound, res),)
                    out.append((s2, res))
            else:
                names = case.exc
                if names and len(names) == 1:
                    cls = I(eng.src.exc_code[eng.src.exc_canon(names[0])])
                else:
                    cls = fresh('exc', t.INT)
                    if names:
                        s2.assume(t.or_(*[t.eq(cls, I(eng.src.exc_code[eng.src.exc_canon(n)])) for n in names]))
                    else:
                        s2.assume(eng.exc_sub_term(cls, 'Exception'))
                pathv = bound[case.path] if case.path else VDyn(fresh('excpath', t.VAL))
                ex = VExc(cls, pathv, origin='raised by %s [%s]' % (self.qual, case.name), explicit_path=bool(case.path))
                post.exc = ex
                for cl in case.ensures(pre2, post):
                    s2.assume(cl[1])
                restore(s2)
                if self.qual.split(':', 1)[-1] in STREAM_HELPERS:
                    # C06 ghost: a stream operation of this call failed (the caller may translate or propagate the error, not drop it)
                    s2.ghost['io_failed'] = t.TRUE
                if not s2.infeasible():
                    s2.ghost['calls'] = s2.ghost.get('calls', ()) + ((self.qual, bound, None),)
                    out.append((s2, Raised(ex)))
        restore(st)
        return out

    # ------------------------------------------------------------------ VERIFY
    def verify(self, src, make_models, stream_model='bytesio', variant=None):
        """-> VerifyResult with obligations for every path end and every loop"""
        node = src.find(self.qual)
        # contracts name the accumulators of a function (loop invariants); when locals were merely RENAMED since the contracts were
        # locked - same number of locals, in the same order of first binding - the function is alpha-renamed back to the locked names
        # before it is executed (a consistent renaming of locals does not change what the function computes)
        ref = LOCALS_LOCK.get(self.qual)
        renamed = False
        if ref is not None:
            now = src.local_order(node)
            gone = [r for r in ref if r not in now]          # names the contracts may mention that no longer exist
            new_ = [n for n in now if n not in ref]          # names that did not exist when the contracts were locked
            if gone and len(gone) == len(new_):
                # heuristic pairing (relative order of first binding); a wrong pairing cannot make a violation out of nothing because
                # failures of a function renamed this way count only when replayed natively (see check.conclude)
                mapping = dict(zip(new_, gone))
                others = {x.id for x in ast.walk(node) if isinstance(x, ast.Name)} - set(now)
                others |= {a.arg for a in node.args.args}
                if not (set(mapping.values()) & others):
                    node = src.alpha_rename(node, mapping)
                    renamed = True
        from . import values as _values
        _values._counter[0] = 0          # names are deterministic per function: identical queries on identical source
        models = make_models(stream_model)
        mod = self.qual.split(':')[0]
        models.this_module = mod
        eng = Engine(src, models, loops=self.loops, fnname=self.qual.split(':')[1], module=mod)
        eng.frame_violations = []
        eng.fn_node = node
        eng.default_loop = self.default_loop
        if models.interface is not None and self.iface:
            models.interface.configure(**self.iface)
        st = State()
        eng.variant = variant
        try:
            selfv, args = self.setup(eng, st, node, stream_model)
        except OutOfReach as e:
            res = VerifyResult(self, stream_model)
            res.out_of_reach = 'setup: %s' % e
            return res
        for ln in src.local_names(node):
            st.env[ln] = UNBOUND
        if selfv is not None:
            st.env['self'] = selfv
        for k, v in args.items():
            st.env[k] = v
        pre = View(eng, st.clone(), selfv, dict(args, **({'self': selfv} if selfv is not None else {})))
        for label, cond in self.requires(pre):
            st.assume(cond)
        from .lemma import LEMMAS
        for ln in self.lemmas:
            st.assume(LEMMAS[ln].as_hyp())
        eng.loop_extra = {'pre': pre}
        res = VerifyResult(self, stream_model)
        res.renamed = renamed
        try:
            finals = eng.block(node.body, st)
        except OutOfReach as e:
            res.out_of_reach = str(e)
            # a store into the construct met BEFORE the executor gave up is still an obligation of its own (C17 frame)
            for msg, fst in eng.frame_violations:
                eng.emit(fst, '%s/frame/%s' % (eng.fnname, msg), t.FALSE, kind='frame', tags=('C17',))
            res.obligations = [ob for ob in eng.obls if ob.kind == 'frame']
            return res
        res.paths = len(finals)
        fname = eng.fnname
        for pi, (fs, flow) in enumerate(finals):
            if fs.infeasible():
                continue
            if flow is None:
                flow = ('return', NONE)
            if flow[0] not in ('return', 'raise'):
                res.out_of_reach = 'flow %r escapes function' % (flow,)
                return res
            kind = flow[0]
            if kind == 'raise' and flow[1].cls.op == 'int' and flow[1].cls.args[0] == src.exc_code['Unmodelled']:
                eng.emit(fs, '%s/path%d/unmodelled-path-infeasible' % (fname, pi), t.FALSE, kind='unmodelled', tags=self.tags,
                         meta={'origin': flow[1].origin})
                continue
            post = View(eng, fs, selfv, pre.args)
            if kind == 'return':
                post.result = flow[1]
            else:
                post.exc = flow[1]
            cases = [c for c in self.cases_for(pre) if c.kind == kind]
            # which cases admit this outcome
            allowed = []
            for c in cases:
                g = c.guard(pre)
                if kind == 'raise':
                    if c.exc:
                        g = t.and_(g, t.or_(*[eng.exc_sub_term(flow[1].cls, n) if False else t.eq(flow[1].cls, I(src.exc_code[src.exc_canon(n)])) for n in c.exc]))
                allowed.append((c, g))
            what = 'returns' if kind == 'return' else 'raises'
            origin = getattr(flow[1], 'origin', None) if kind == 'raise' else None
            eng.emit(fs, '%s/path%d/%s-allowed' % (fname, pi, what), t.or_(*[g for _, g in allowed]) if allowed else t.FALSE,
                     kind='outcome', tags=self.tags, meta={'outcome': kind, 'origin': origin, 'path': pi})
            for c, g in allowed:
                if g.op == 'bool' and not g.args[0]:
                    continue
                k = fs.known(g)
                if k is False:
                    continue
                s2 = fs.clone()
                s2.assume(g)
                if s2.infeasible():
                    continue
                post2 = View(eng, s2, selfv, pre.args)
                post2.result, post2.exc = post.result, post.exc
                if kind == 'raise' and c.path:
                    pv = pre.args[c.path]
                    ev = flow[1].path
                    if isinstance(ev, VStr) and isinstance(pv, VStr) and ev.t is not None and pv.t is not None:
                        goal = t.eq(ev.t, pv.t)
                    elif isinstance(ev, VNone):
                        goal = t.FALSE
                    else:
                        goal = t.app('pyeq', t.BOOL, eng.to_dyn(ev, s2), eng.to_dyn(pv, s2))
                    eng.emit(s2, '%s/path%d/%s/exc-path' % (fname, pi, c.name), goal, kind='clause', tags=c.tags or self.tags,
                             meta={'origin': origin})
                for cl in c.ensures(pre, post2):
                    label, cond = cl[0], cl[1]
                    tags = cl[2] if len(cl) > 2 and cl[2] is not None else (c.tags or self.tags)
                    if len(cl) > 3 and cl[3]:
                        # instances of separately proved lemmas (Layer B) offered as hints for this clause
                        s2 = s2.clone()
                        for hi, h in enumerate(cl[3]):
                            if isinstance(h, prelude.DefInstance):
                                s2.assume(h.term)        # the defining equation itself, instantiated: nothing to prove
                                continue
                            if isinstance(h, tuple) and h[0] == 'def':
                                # a fact that follows from a definition: proved on the spot (with the definitions), then used
                                eng.emit(s2, '%s/path%d/%s/%s/def-hint%d' % (fname, pi, c.name, label, hi), h[1], kind='hint', tags=tags)
                                h = h[1]
                            s2.assume(h)
                    eng.emit(s2, '%s/path%d/%s/%s' % (fname, pi, c.name, label), cond, kind='clause', tags=tags, meta={'origin': origin})
                    # clauses are proved in order: an earlier clause (with its own obligation) may be used by later ones
                    s2 = s2.clone()
                    s2.assume(cond)
        for msg, fst in eng.frame_violations:
            eng.emit(fst, '%s/frame/%s' % (fname, msg), t.FALSE, kind='frame', tags=('C17',))
        res.obligations = eng.obls
        # a specification that matched no loop: reported only when the function no longer contains a loop with that text
        # (a loop that exists but is unreachable under this variant's parameters is not a problem)
        import ast as _ast
        texts = set()
        for n_ in _ast.walk(node):
            if isinstance(n_, _ast.While):
                texts.add('while ' + _ast.unparse(n_.test))
            elif isinstance(n_, _ast.For):
                texts.add('for %s in %s' % (_ast.unparse(n_.target), _ast.unparse(n_.iter)))
        # ... or has a loop of the same kind at the same position (its text was edited: it is judged against the specification
        # whenever a path reaches it)
        static = sorted((x for x in _ast.walk(node) if isinstance(x, (_ast.For, _ast.While))), key=lambda x: (x.lineno, x.col_offset))
        kinds = ['while' if isinstance(x, _ast.While) else 'for' for x in static]
        keys = list(self.loops)
        res.loops_unused = [k for i, k in enumerate(keys) if k not in eng.loop_specs_used and k not in texts
                            and not (i < len(kinds) and isinstance(k, str) and k.split(' ')[0] == kinds[i])]
        return res


class VerifyResult:
    def __init__(self, contract, stream_model):
        self.contract, self.stream_model = contract, stream_model
        self.obligations = []
        self.paths = 0
        self.out_of_reach = None
        self.loops_unused = []
        self.renamed = False


REGISTRY = {}
GENERIC = {}


def register(c):
    REGISTRY[c.qual] = c
    return c
