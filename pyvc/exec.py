"""Path-wise symbolic executor over the real Python AST of /repo.

Every call is replaced by a model: a contract of a repository function (never its body), a built-in model of
a CPython/stdlib function (assumed contracts E1-E6, DESIGN.md 2.6), or the Construct interface contract for
sub-constructs.  Every loop with a symbolic trip count is replaced by its invariant.  Unsupported syntax
raises OutOfReach: the function is then reported as not under proof.
"""
import ast

from . import terms as t
from .terms import T, I, Bc, S
from .values import *  # noqa
from .state import State, OutOfReach, new_loc
from . import prelude


class Obligation:
    def __init__(self, name, hyps, goal, kind='clause', tags=(), meta=None):
        self.name, self.hyps, self.goal, self.kind, self.tags, self.meta = name, list(hyps), goal, kind, tuple(tags), meta or {}


class LoopView:
    """what a loop invariant may look at"""

    def __init__(self, eng, st, entry, k=None, n=None, extra=None):
        self.eng, self.st, self.entry, self.k, self.n = eng, st, entry, k, n
        self.extra = extra or {}

    def __getitem__(self, name):
        return self.st.env[name]

    def has(self, name):
        v = self.st.env.get(name)
        return v is not None and not isinstance(v, Unbound)

    def obj(self, name, st=None):
        st = st or self.st
        v = st.env[name]
        return st.get(v) if isinstance(v, VRef) else v

    def obj_of_kind(self, name, cls, st=None):
        """the object the local `name` refers to; when no local has that name any more (a renamed temporary), the UNIQUE local that
        refers to an object of class `cls` - invariants speak about the accumulator, not about what it is called"""
        st = st or self.st
        v = st.env.get(name)
        if isinstance(v, VRef) and isinstance(st.get(v), cls):
            return st.get(v)
        cands = [x for x in st.env.values() if isinstance(x, VRef) and isinstance(st.get(x), cls)]
        uniq = {x.loc: x for x in cands}
        if len(uniq) == 1:
            return st.get(next(iter(uniq.values())))
        raise OutOfReach('no local named %s and no unique local of kind %s' % (name, cls.__name__))

    def old(self, name):
        return self.entry.env[name]

    def bound(self, name):
        """Bool term: the local `name` is bound in the current state"""
        v = self.st.env.get(name)
        if v is None or isinstance(v, Unbound):
            return t.FALSE
        if isinstance(v, MaybeBound):
            return v.cond
        return t.TRUE

    def oldobj(self, name):
        return self.obj(name, self.entry)


class Engine:
    MAX_UNROLL = 600

    def __init__(self, src, models, loops=None, fnname='?', module='construct.core'):
        self.src = src
        self.models = models          # CallModels instance
        self.loops = loops or {}
        self.fnname = fnname
        self.module = module
        self.obls = []
        self.loop_ordinal = 0
        self.paths_killed = 0
        self.loop_specs_used = set()
        self.frame_violations = []
        self.loop_extra = {}
        self.default_loop = None
        self.allow_self_store = False

    # ================================================================= helpers
    def emit(self, st, name, goal, kind='clause', tags=(), meta=None):
        if goal.op == 'bool' and goal.args[0]:
            kind_ = kind
            self.obls.append(Obligation(name, [], t.TRUE, kind_ + ':trivial', tags, meta))
            return
        self.obls.append(Obligation(name, st.pc, goal, kind, tags, meta))

    def fork(self, st, cond):
        """-> (state where cond holds | None, state where it does not | None)"""
        k = st.known(cond)
        if k is True:
            return st, None
        if k is False:
            return None, st
        a = st.clone()
        a.assume(cond)
        b = st
        b.assume(t.not_(cond))
        return (None if a.infeasible() else a), (None if b.infeasible() else b)

    def exc(self, name, path=NONE, origin=None, explicit_path=False):
        return VExc(I(self.src.exc_code[self.src.exc_canon(name)]), path, origin, explicit_path)

    def exc_sub_term(self, cls_term, base):
        """Bool term: exception class code `cls_term` is a subclass of `base`"""
        codes = sorted(self.src.exc_code[n] for n in self.src.exc_descendants(base))
        if cls_term.op == 'int':
            return Bc(cls_term.args[0] in codes)
        return t.or_(*[t.eq(cls_term, I(c)) for c in codes])

    def raise_(self, st, name, origin=None):
        return [(st, Raised(self.exc(name, origin=origin)))]

    # ----------------------------------------------------------------- value conversions
    def to_dyn(self, v, st):
        if isinstance(v, VDyn):
            return v.t
        if isinstance(v, VInt):
            return t.app('VInt', t.VAL, v.t)
        if isinstance(v, VBool):
            return t.app('VBool', t.VAL, v.t)
        if isinstance(v, VNone):
            return t.app('VNone', t.VAL)
        if isinstance(v, VBytes):
            return t.app('VBytes', t.VAL, v.arr, v.off, v.len)
        if isinstance(v, VStr):
            if v.t is None:
                return t.app('VOpq', t.VAL, fresh('opqstr', t.INT))
            return t.app('VStr', t.VAL, v.t)
        if isinstance(v, VRef):
            o = st.get(v)
            if isinstance(o, OContainer):
                return t.app('VRef', t.VAL, o.addr)
            if isinstance(o, OBytearray):
                return t.app('VOpq', t.VAL, I(-v.loc))
            return t.app('VOpq', t.VAL, I(-v.loc))
        if isinstance(v, (VSub,)):
            return t.app('VOpq', t.VAL, v.ident)
        if isinstance(v, (VParam,)):
            c = self.models.param_const(self, v, st)
            return t.ite(v.callable_t, t.app('VOpq', t.VAL, v.ident), self.to_dyn(c, st))
        if isinstance(v, (VFunc, VObj, VTuple, VClass, VExc)):
            return t.app('VOpq', t.VAL, fresh('opq', t.INT))
        raise OutOfReach('to_dyn(%r)' % (v,))

    def as_int(self, v, st):
        """-> (Int term, Bool term saying it really is an int)"""
        if isinstance(v, VInt):
            return v.t, t.TRUE
        if isinstance(v, VBool):
            return t.ite(v.t, t.ONE, t.ZERO), t.TRUE
        if isinstance(v, VDyn):
            return t.app('toint', t.INT, v.t), t.app('isint', t.BOOL, v.t)
        if isinstance(v, VParam):
            # a parameter object used as a value: its constant, provided it is not a callable
            iv, ok = self.as_int(self.models.param_const(self, v, st), st)
            if iv is None:
                return None, t.FALSE
            return iv, t.and_(ok, t.not_(v.callable_t))
        return None, t.FALSE

    def truth(self, v, st):
        """-> Bool term (python truthiness); never raises for the kinds modelled"""
        if isinstance(v, VBool):
            return v.t
        if isinstance(v, VInt):
            return t.ne(v.t, t.ZERO)
        if isinstance(v, VNone):
            return t.FALSE
        if isinstance(v, VBytes):
            return t.gt(v.len, t.ZERO)
        if isinstance(v, VStr):
            if v.t is None:
                return fresh('truth_opqstr', t.BOOL)
            if v.t.op == 'strlit':
                return Bc(bool(v.t.args[0]))
            return t.gt(t.app('str.len', t.INT, v.t), t.ZERO)
        if isinstance(v, VDyn):
            return t.app('truthy', t.BOOL, v.t)
        if isinstance(v, VTuple):
            return Bc(len(v.items) > 0)
        if isinstance(v, VRef):
            o = st.get(v)
            if isinstance(o, OList):
                return Bc(len(o.items) > 0) if o.concrete else t.gt(o.len, t.ZERO)
            if isinstance(o, OBytearray):
                return t.gt(o.len, t.ZERO)
            if isinstance(o, ODict):
                return Bc(len(o.items) > 0)
            if isinstance(o, OContainer):
                return t.app('truthy_ref', t.BOOL, o.addr)
            return t.TRUE
        if isinstance(v, (VFunc, VObj, VSub, VClass, VModule)):
            return t.TRUE
        if isinstance(v, VParam):
            # a parameter object: callable -> truthy; constant -> truthiness of the constant
            return t.or_(v.callable_t, self.truth(self.models.param_const(self, v, st), st))
        raise OutOfReach('truth(%r)' % (v,))

    def pyeq(self, a, b, st):
        """-> Bool term for a == b (no user __eq__ on the kinds modelled)"""
        if isinstance(a, VNone) or isinstance(b, VNone):
            if isinstance(a, VNone) and isinstance(b, VNone):
                return t.TRUE
            o = b if isinstance(a, VNone) else a
            if isinstance(o, VDyn):
                return t.app('(_ is VNone)', t.BOOL, o.t)
            return t.FALSE
        ia, oka = self.as_int(a, st)
        ib, okb = self.as_int(b, st)
        if not isinstance(a, VDyn) and not isinstance(b, VDyn):
            if ia is not None and ib is not None:
                return t.eq(ia, ib)
            if isinstance(a, VBytes) and isinstance(b, VBytes):
                return self.bytes_eq(a, b)
            if isinstance(a, VStr) and isinstance(b, VStr):
                if a.t is None or b.t is None:
                    return fresh('opq_streq', t.BOOL)
                return t.eq(a.t, b.t)
            if isinstance(a, VTuple) and isinstance(b, VTuple):
                if len(a.items) != len(b.items):
                    return t.FALSE
                return t.and_(*[self.pyeq(x, y, st) for x, y in zip(a.items, b.items)])
            if a.kind != b.kind:
                if isinstance(a, VRef) or isinstance(b, VRef):
                    raise OutOfReach('== on %s / %s' % (a.kind, b.kind))
                return t.FALSE
            if isinstance(a, VRef) and isinstance(b, VRef):
                if a.loc == b.loc:
                    return t.TRUE
                raise OutOfReach('== on distinct heap objects')
            if isinstance(a, (VSub, VParam)):
                return t.eq(a.ident, b.ident)
            raise OutOfReach('== on %s' % a.kind)
        # a value of unknown type already known to be bytes, compared with a bytes view: pointwise equality (same meaning as
        # pyeq's recursive beq, but usable by the solvers in both polarities without induction)
        for x, y in ((a, b), (b, a)):
            if isinstance(x, VDyn) and isinstance(y, VBytes) and st.known(t.app('(_ is VBytes)', t.BOOL, x.t)) is True:
                return self.bytes_eq(self.dyn_bytes(x, st), y)
        da, db = self.to_dyn(a, st), self.to_dyn(b, st)
        if da.smt() == db.smt() and st.known(t.or_(t.app('(_ is VRef)', t.BOOL, da), t.app('(_ is VOpq)', t.BOOL, da))) is not True:
            return t.TRUE            # == is reflexive on the modelled value kinds (ints, bools, None, bytes, str)
        return t.app('pyeq', t.BOOL, da, db)

    def bytes_eq(self, a, b):
        if a.len.op == 'int' and b.len.op == 'int':
            if a.len.args[0] != b.len.args[0]:
                return t.FALSE
            return t.and_(*[t.eq(a.at(I(i)), b.at(I(i))) for i in range(a.len.args[0])])
        for x, y in ((a, b), (b, a)):
            if x.len.op == 'int' and x.len.args[0] <= 16:
                n = x.len.args[0]
                return t.and_(t.eq(y.len, I(n)), *[t.eq(x.at(I(i)), y.at(I(i))) for i in range(n)])
        # pointwise (no recursive function): both polarities are handled by the solvers (skolemisation / instantiation).
        # Stated over the ABSOLUTE index of each side in turn, so that the trigger (select arr j) fires for every index term.
        def side(x, y):
            j = t.var('eq!', t.INT)
            lhs = t.select(x.arr, j)
            if not lhs.free_vars() or 'eq!' not in ' '.join(lhs.free_vars()):
                return None      # a constant array: nothing to trigger on
            return t.forall([j], t.implies(t.and_(t.le(x.off, j), t.lt(j, t.add(x.off, x.len))), t.eq(lhs, t.select(y.arr, t.add(y.off, t.sub(j, x.off))))), pats=[[lhs]])
        qs = [q for q in (side(a, b), side(b, a)) if q is not None]
        return t.and_(t.eq(a.len, b.len), *qs)

    def from_const(self, c, st):
        if c is None:
            return NONE
        if isinstance(c, bool):
            return VBool(Bc(c))
        if isinstance(c, int):
            return VInt(I(c))
        if isinstance(c, str):
            return VStr(S(c))
        if isinstance(c, bytes):
            arr = t.const_arr(t.ZERO)
            for i, b in enumerate(c):
                if b != 0:
                    arr = t.store(arr, I(i), I(b))
            return VBytes(arr, t.ZERO, I(len(c)))
        if isinstance(c, tuple):
            return VTuple([self.from_const(x, st) for x in c])
        if isinstance(c, float):
            raise OutOfReach('float constant')
        if c is Ellipsis:
            raise OutOfReach('ellipsis')
        raise OutOfReach('constant %r' % (c,))

    def dyn_bytes(self, v, st):
        """the bytes payload of a Val known to be bytes: a view whose elements are byte values (type invariant of bytes)"""
        b = VBytes(t.app('barr', t.ARR, v.t), t.app('boff', t.INT, v.t), t.app('blen', t.INT, v.t))
        st.assume(t.ge(b.len, t.ZERO))
        if b.arr.op != 'store' and b.arr.op != 'constarr':
            self.assume_byte_range(st, b.arr, b.off, b.len)
        return b

    def assume_val_invariant(self, st, v):
        """type invariant of a value of unknown type: if it is a bytes object its elements are byte values and its
        length is non-negative"""
        j = t.var('i!', t.INT)
        arr, off, ln = t.app('barr', t.ARR, v), t.app('boff', t.INT, v), t.app('blen', t.INT, v)
        body = t.implies(t.and_(t.le(off, j), t.lt(j, t.add(off, ln))), t.and_(t.le(t.ZERO, t.select(arr, j)), t.lt(t.select(arr, j), I(256))))
        st.assume(t.implies(t.app('(_ is VBytes)', t.BOOL, v), t.and_(t.ge(ln, t.ZERO), t.forall([j], body, pats=[[t.select(arr, j)]]))))

    def fresh_bytes(self, st, base='bytes', ln=None):
        arr = fresh(base + '_arr', t.ARR)
        ln = ln if ln is not None else fresh(base + '_len', t.INT)
        st.assume(t.ge(ln, t.ZERO))
        self.assume_byte_range(st, arr, t.ZERO, ln)
        return VBytes(arr, t.ZERO, ln)

    def assume_byte_range(self, st, arr, off, ln):
        # stated over the absolute index so that the pattern (select arr j) fires for every index term
        j = t.var('i!', t.INT)
        body = t.implies(t.and_(t.le(off, j), t.lt(j, t.add(off, ln))),
                         t.and_(t.le(t.ZERO, t.select(arr, j)), t.lt(t.select(arr, j), I(256))))
        st.assume(t.forall([j], body, pats=[[t.select(arr, j)]]))

    # ================================================================= expressions
    def ev(self, e, st):
        m = getattr(self, 'e_' + type(e).__name__, None)
        if m is None:
            raise OutOfReach('expression %s' % type(e).__name__)
        return m(e, st)

    def bind(self, results, k):
        out = []
        for st, v in results:
            if isinstance(v, Raised):
                out.append((st, v))
            else:
                out.extend(k(st, v))
        return out

    def ev_list(self, exprs, st):
        """evaluate left to right -> list of (state, [values] | Raised)"""
        outs = [(st, [])]
        for e in exprs:
            nxt = []
            for st1, vs in outs:
                if isinstance(vs, Raised):
                    nxt.append((st1, vs))
                    continue
                for st2, v in self.ev(e, st1):
                    if isinstance(v, Raised):
                        nxt.append((st2, v))
                    else:
                        nxt.append((st2, vs + [v]))
            outs = nxt
        return outs

    def e_Constant(self, e, st):
        return [(st, self.from_const(e.value, st))]

    def e_Name(self, e, st):
        return self.lookup(e.id, st)

    def lookup(self, name, st):
        if name in st.env:
            v = st.env[name]
            if isinstance(v, Unbound):
                return self.raise_(st, 'UnboundLocalError', origin='read of unbound local %s' % name)
            if isinstance(v, MaybeBound):
                a, b = self.fork(st, v.cond)
                out = []
                if a is not None:
                    a.env[name] = v.value
                    out.append((a, v.value))
                if b is not None:
                    b.env[name] = UNBOUND
                    out.extend(self.raise_(b, 'UnboundLocalError', origin='read of possibly unbound local %s' % name))
                return out
            return [(st, v)]
        g = self.models.global_name(self, name, st)
        if g is None:
            raise OutOfReach('unknown name %s' % name)
        return [(st, g)]

    def e_JoinedStr(self, e, st):
        # f-string: only ever used for messages and generated code; evaluate the parts for their effects, result opaque
        exprs = [v.value for v in e.values if isinstance(v, ast.FormattedValue)]
        return self.bind(self.ev_list(exprs, st), lambda st1, vs: [(st1, VStr(None))])

    def e_Tuple(self, e, st):
        return self.bind(self.ev_list(e.elts, st), lambda st1, vs: [(st1, VTuple(vs))])

    def e_List(self, e, st):
        return self.bind(self.ev_list(e.elts, st), lambda st1, vs: [(st1, st1.alloc(OList(items=tuple(vs)), 'list'))])

    def e_Dict(self, e, st):
        if any(k is None for k in e.keys):
            raise OutOfReach('dict unpacking')
        def k(st1, vs):
            n = len(e.keys)
            keys, vals = vs[:n], vs[n:]
            items = {}
            try:
                for kk, vv in zip(keys, vals):
                    items[self.hashable(kk)] = vv
            except OutOfReach:
                has = t.const_arr(t.FALSE, 'VMapHas')
                get = fresh('dictvals', 'VMapGet')
                for kk, vv in zip(keys, vals):
                    kt = self.to_dyn(kk, st1)
                    has = t.T('VMapHas', 'store', (has, kt, t.TRUE))
                    get = t.T('VMapGet', 'store', (get, kt, self.to_dyn(vv, st1)))
                return [(st1, st1.alloc(ODict(has=has, get=get), 'dict'))]
            return [(st1, st1.alloc(ODict(items), 'dict'))]
        return self.bind(self.ev_list(list(e.keys) + list(e.values), st), k)

    def hashable(self, v):
        if isinstance(v, VInt) and v.t.op == 'int':
            return ('int', v.t.args[0])
        if isinstance(v, VStr) and v.t is not None and v.t.op == 'strlit':
            return ('str', v.t.args[0])
        if isinstance(v, VBool) and v.t.op == 'bool':
            return ('int', int(v.t.args[0]))
        if isinstance(v, VNone):
            return ('none',)
        raise OutOfReach('symbolic dict key %r' % (v,))

    def assigned_on_self(self, cls, attr):
        """does some method of the real class (or of a base class) assign self.<attr>?"""
        for c in self.src.mro(cls):
            for n in ast.walk(self.src.classes[c][1]):
                if isinstance(n, ast.Attribute) and isinstance(n.ctx, ast.Store) and n.attr == attr and isinstance(n.value, ast.Name) and n.value.id == 'self':
                    return True
        return False

    def e_Attribute(self, e, st):
        return self.bind(self.ev(e.value, st), lambda st1, b: self.getattr(b, e.attr, st1, e))

    def getattr(self, b, attr, st, node=None):
        if isinstance(b, VObj):
            if attr in b.fields:
                return [(st, b.fields[attr])]
            q = self.src.resolve_method(b.cls, attr) if b.cls in self.src.classes else None
            if q:
                return [(st, VFunc(attr, bound=b, model=('method', q)))]
            r = self.models.obj_attr(self, b, attr, st)
            if r is not None:
                return r
            if self.assigned_on_self(b.cls, attr):
                return [(st, VInstanceState(b.cls, attr))]
            raise OutOfReach('attribute %s of %s' % (attr, b.cls))
        r = self.models.attr(self, b, attr, st)
        if r is None:
            raise OutOfReach('attribute %s of %s' % (attr, b.kind if not isinstance(b, VRef) else b.okind))
        return r

    def e_Subscript(self, e, st):
        if isinstance(e.slice, ast.Slice):
            parts = [e.value] + [x if x is not None else ast.Constant(value=None) for x in (e.slice.lower, e.slice.upper, e.slice.step)]
            return self.bind(self.ev_list(parts, st), lambda st1, vs: self.models.slice(self, vs[0], vs[1], vs[2], vs[3], st1))
        return self.bind(self.ev_list([e.value, e.slice], st), lambda st1, vs: self.models.index(self, vs[0], vs[1], st1))

    def e_IfExp(self, e, st):
        def k(st1, c):
            cond = self.truth(c, st1)
            a, b = self.fork(st1, cond)
            out = []
            if a is not None:
                out.extend(self.ev(e.body, a))
            if b is not None:
                out.extend(self.ev(e.orelse, b))
            return out
        return self.bind(self.ev(e.test, st), k)

    def e_BoolOp(self, e, st):
        # and/or return an operand and short-circuit
        is_and = isinstance(e.op, ast.And)

        def go(i, st0):
            def k(st1, v):
                if i == len(e.values) - 1:
                    return [(st1, v)]
                cond = self.truth(v, st1)
                a, b = self.fork(st1, cond)
                out = []
                cont, stop = (a, b) if is_and else (b, a)
                if stop is not None:
                    out.append((stop, v))
                if cont is not None:
                    out.extend(go(i + 1, cont))
                return out
            return self.bind(self.ev(e.values[i], st0), k)
        res = go(0, st)
        return res

    def e_UnaryOp(self, e, st):
        def k(st1, v):
            if isinstance(e.op, ast.Not):
                return [(st1, VBool(t.not_(self.truth(v, st1))))]
            iv, ok = self.as_int(v, st1)
            if iv is None:
                raise OutOfReach('unary op on %s' % v.kind)
            def ok_k(st2):
                if isinstance(e.op, ast.USub):
                    return [(st2, VInt(t.neg(iv)))]
                if isinstance(e.op, ast.UAdd):
                    return [(st2, VInt(iv))]
                if isinstance(e.op, ast.Invert):
                    return [(st2, VInt(t.sub(t.neg(iv), t.ONE)))]
                raise OutOfReach('unary op')
            return self.typed(st1, ok, ok_k, 'unary operand')
        return self.bind(self.ev(e.operand, st), k)

    def typed(self, st, ok, k, what):
        """run k on the state where `ok` holds; where it does not, Python would raise TypeError (or behave in a way
        the model does not cover): both are produced conservatively."""
        a, b = self.fork(st, ok)
        out = []
        if a is not None:
            out.extend(k(a))
        if b is not None:
            out.extend(self.raise_(b, 'TypeError', origin='dynamic type: ' + what))
        return out

    def e_BinOp(self, e, st):
        return self.bind(self.ev_list([e.left, e.right], st), lambda st1, vs: self.binop(e.op, vs[0], vs[1], st1, e))

    def binop(self, op, a, b, st, node=None):
        r = self.models.binop(self, op, a, b, st, node)
        if r is None:
            raise OutOfReach('binop %s on %s,%s' % (type(op).__name__, a.kind, b.kind))
        return r

    def e_Compare(self, e, st):
        # chained comparisons: a < b < c  ==  a < b and b < c with b evaluated once
        def go(i, left, st0, acc):
            def k(st1, right):
                rs = self.compare(e.ops[i], left, right, st1)
                out = []
                for st2, c in rs:
                    if isinstance(c, Raised):
                        out.append((st2, c))
                        continue
                    cc = t.and_(acc, c.t) if acc is not None else c.t
                    if i == len(e.ops) - 1:
                        out.append((st2, VBool(cc)))
                    else:
                        # short circuit does not matter for pure comparators: evaluate the rest
                        out.extend(go(i + 1, right, st2, cc))
                return out
            return self.bind(self.ev(e.comparators[i], st0), k)
        return self.bind(self.ev(e.left, st), lambda st1, l: go(0, l, st1, None))

    def compare(self, op, a, b, st):
        r = self.models.compare(self, op, a, b, st)
        if r is None:
            raise OutOfReach('compare %s on %s,%s' % (type(op).__name__, a.kind, b.kind))
        return r

    def e_Lambda(self, e, st):
        return [(st, VFunc('<lambda>', node=e, closure=dict(st.env)))]

    def e_Call(self, e, st):
        if any(isinstance(a, ast.Starred) for a in e.args):
            return self.models.star_call(self, e, st)
        kwnames = [k.arg for k in e.keywords]
        if any(k is None for k in kwnames):
            return self.models.star_call(self, e, st)
        f = e.func
        if isinstance(f, ast.Name) and f.id in ('bytes', 'bytearray', 'sum', 'all', 'any', 'min', 'max') \
                and len(e.args) == 1 and not e.keywords and isinstance(e.args[0], ast.ListComp):
            # f([x for ...]) consumes the list at once: the same as f(x for ...) (same elements, same order, same exceptions)
            e = ast.copy_location(ast.Call(func=f, args=[ast.copy_location(ast.GeneratorExp(elt=e.args[0].elt, generators=e.args[0].generators), e.args[0])], keywords=[]), e)
        # method call: evaluate receiver first
        exprs = ([f.value] if isinstance(f, ast.Attribute) else [f]) + list(e.args) + [k.value for k in e.keywords]

        def k(st1, vs):
            recv = vs[0]
            args = vs[1:1 + len(e.args)]
            kws = dict(zip(kwnames, vs[1 + len(e.args):]))
            if isinstance(f, ast.Attribute):
                return self.call_method(recv, f.attr, args, kws, st1, e)
            return self.call_value(recv, args, kws, st1, e)
        if isinstance(f, ast.Attribute) and isinstance(f.value, ast.Call) and isinstance(f.value.func, ast.Name) and f.value.func.id == 'super':
            return self.models.super_call(self, f.attr, e, st)
        return self.bind(self.ev_list(exprs, st), k)

    def call_method(self, recv, name, args, kws, st, node):
        r = self.models.method(self, recv, name, args, kws, st, node)
        if r is None:
            raise OutOfReach('method %s on %s' % (name, recv.kind if not isinstance(recv, VRef) else recv.okind))
        return r

    def call_value(self, f, args, kws, st, node):
        r = self.models.call(self, f, args, kws, st, node)
        if r is None:
            raise OutOfReach('call of %r' % (f,))
        return r

    def call_closure(self, f, args, kws, st):
        """inline a local closure / lambda defined in the function under verification (its body is part of that
        function's text, so this is not inlining of a callee)"""
        node = f.node
        a = node.args
        if a.vararg or a.kwarg or a.kwonlyargs:
            raise OutOfReach('closure signature')
        names = [x.arg for x in a.args]
        saved = st.env
        env = dict(f.closure)
        # late binding: closures see the current values of enclosing locals that still exist
        for k2, v2 in saved.items():
            if k2 in env:
                env[k2] = v2
        if len(args) > len(names):
            raise OutOfReach('closure arity')
        for n, v in zip(names, args):
            env[n] = v
        defaults = a.defaults
        for i, n in enumerate(names[len(args):], start=len(args)):
            if n in kws:
                env[n] = kws[n]
            else:
                di = i - (len(names) - len(defaults))
                if di < 0:
                    return self.raise_(st, 'TypeError', origin='closure arity')
                (st, dv), = self.ev(defaults[di], st)
                env[n] = dv
        st.env = env
        out = []
        if isinstance(node, ast.Lambda):
            for st1, v in self.ev(node.body, st):
                st1.env = dict(saved)
                out.append((st1, v))
            return out
        for st1, flow in self.block(node.body, st):
            st1.env = dict(saved)
            if flow is None:
                out.append((st1, NONE))
            elif flow[0] == 'return':
                out.append((st1, flow[1]))
            elif flow[0] == 'raise':
                out.append((st1, Raised(flow[1])))
            else:
                raise OutOfReach('flow out of closure')
        return out

    def e_GeneratorExp(self, e, st):
        return self.models.comprehension(self, e, st, 'gen')

    def e_ListComp(self, e, st):
        return self.models.comprehension(self, e, st, 'list')

    def e_DictComp(self, e, st):
        return self.models.comprehension(self, e, st, 'dict')

    def e_Starred(self, e, st):
        raise OutOfReach('starred')

    # ================================================================= statements
    def block(self, stmts, st):
        cur = [(st, None)]
        for stmt in stmts:
            nxt = []
            for st1, flow in cur:
                if flow is not None:
                    nxt.append((st1, flow))
                    continue
                if st1.infeasible():
                    self.paths_killed += 1
                    continue
                m = getattr(self, 's_' + type(stmt).__name__, None)
                if m is None:
                    raise OutOfReach('statement %s' % type(stmt).__name__)
                nxt.extend(m(stmt, st1))
            cur = nxt
        return cur

    def lift(self, results, k):
        out = []
        for st, v in results:
            if isinstance(v, Raised):
                out.append((st, ('raise', v.exc)))
            else:
                out.extend(k(st, v))
        return out

    def s_Pass(self, n, st):
        return [(st, None)]

    def s_Expr(self, n, st):
        if isinstance(n.value, ast.Constant):
            return [(st, None)]
        return self.lift(self.ev(n.value, st), lambda st1, v: [(st1, None)])

    def s_Import(self, n, st):
        for a in n.names:
            st.env[(a.asname or a.name).split('.')[0]] = VModule(a.name)
        return [(st, None)]

    def s_ImportFrom(self, n, st):
        raise OutOfReach('import from inside function')

    def s_Return(self, n, st):
        if n.value is None:
            return [(st, ('return', NONE))]
        return self.lift(self.ev(n.value, st), lambda st1, v: [(st1, ('return', v))])

    def s_Break(self, n, st):
        return [(st, ('break',))]

    def s_Continue(self, n, st):
        return [(st, ('continue',))]

    def s_Assert(self, n, st):
        # assert statements in ghost programs (lemmas) are obligations; in repository code they may raise AssertionError
        def k(st1, v):
            cond = self.truth(v, st1)
            if self.models.ghost_mode:
                label = ast.unparse(n.msg) if n.msg is not None else ast.unparse(n.test)
                if isinstance(n.msg, ast.Constant):
                    label = str(n.msg.value)
                self.emit(st1, 'assert/' + label, cond, kind='assert', meta={'line': n.lineno})
                st1.assume(cond)
                return [(st1, None)]
            a, b = self.fork(st1, cond)
            out = []
            if a is not None:
                out.append((a, None))
            if b is not None:
                out.append((b, ('raise', self.exc('AssertionError', origin='assert'))))
            return out
        return self.lift(self.ev(n.test, st), k)

    def s_Raise(self, n, st):
        if n.exc is None:
            if not st.excstack:
                raise OutOfReach('bare raise outside handler')
            return [(st, ('raise', st.excstack[-1]))]

        def k(st1, v):
            if isinstance(v, VClass) and self.src.is_exc_class(v.name):
                v = self.exc(v.name, origin='raise %s' % v.name)
            if not isinstance(v, VExc):
                raise OutOfReach('raise of %r' % (v,))
            if st1.excstack and v is not st1.excstack[-1] and getattr(v, 'context', None) is None and not isinstance(n.exc, ast.Name):
                v.context = st1.excstack[-1]       # a raise statement inside a handler: the new error replaces the handled one
            return [(st1, ('raise', v))]
        return self.lift(self.ev(n.exc, st), k)

    def s_With(self, n, st):
        """with EXPR as NAME: body   (context managers modelled: the files returned by open(); __exit__ only closes the file)"""
        if len(n.items) != 1:
            raise OutOfReach('with statement with several items')
        item = n.items[0]

        def k(st1, v):
            if not (isinstance(v, VRef) and getattr(st1.get(v), 'is_file', False)):
                raise OutOfReach('with statement over %r' % (v,))
            outs = self.assign(item.optional_vars, v, st1) if item.optional_vars is not None else [(st1, None)]
            res = []
            for s2, fl in outs:
                res.extend(self.block(n.body, s2) if fl is None else [(s2, fl)])
            return res
        return self.lift(self.ev(item.context_expr, st), k)

    def s_Assign(self, n, st):
        def k(st1, v):
            outs = [(st1, None)]
            for tgt in n.targets:
                nxt = []
                for st2, fl in outs:
                    if fl is not None:
                        nxt.append((st2, fl))
                    else:
                        nxt.extend(self.assign(tgt, v, st2))
                outs = nxt
            return outs
        return self.lift(self.ev(n.value, st), k)

    def assign(self, tgt, v, st):
        if isinstance(tgt, ast.Name):
            # closures see variables, not values (late binding): rebinding a name that a live lambda of this function reads
            # changes what that lambda computes.  The self-referential form `x = lambda ...: ... x ...` is modelled exactly
            # (the lambda sees itself); any other rebinding of a captured name is outside the subset.
            if isinstance(v, VFunc) and isinstance(v.node, ast.Lambda) and v.closure is not None and tgt.id in _free_names(v.node):
                v = VFunc(v.name, node=v.node, closure=dict(v.closure), bound=v.bound, model=v.model)
                v.closure[tgt.id] = v
            else:
                for ov in st.env.values():
                    if isinstance(ov, VFunc) and isinstance(ov.node, ast.Lambda) and ov.closure is not None and ov is not v \
                            and tgt.id in _free_names(ov.node) and tgt.id in ov.closure and ov.closure[tgt.id] is not ov:
                        raise OutOfReach('rebinding %s, which a live lambda reads' % tgt.id)
            st.env[tgt.id] = v
            return [(st, None)]
        if isinstance(tgt, (ast.Tuple, ast.List)):
            items = self.models.unpack(self, v, len(tgt.elts), st)
            if items is None:
                raise OutOfReach('unpack %r' % (v,))
            outs = [(st, None)]
            for el, it in zip(tgt.elts, items):
                nxt = []
                for st2, fl in outs:
                    nxt.extend(self.assign(el, it, st2) if fl is None else [(st2, fl)])
                outs = nxt
            return outs
        if isinstance(tgt, ast.Attribute):
            return self.lift(self.ev(tgt.value, st), lambda st1, b: self.lift(self.models.setattr(self, b, tgt.attr, v, st1), lambda s, _: [(s, None)]))
        if isinstance(tgt, ast.Subscript):
            if isinstance(tgt.slice, ast.Slice):
                raise OutOfReach('slice store')
            return self.lift(self.ev_list([tgt.value, tgt.slice], st),
                             lambda st1, vs: self.lift(self.models.setitem(self, vs[0], vs[1], v, st1), lambda s, _: [(s, None)]))
        raise OutOfReach('assignment target %s' % type(tgt).__name__)

    def s_AugAssign(self, n, st):
        load = ast.copy_location(_as_load(n.target), n.target)

        def k(st1, vs):
            return self.lift(self.binop(n.op, vs[0], vs[1], st1, n), lambda st2, r: self.assign(n.target, r, st2))
        return self.lift(self.ev_list([load, n.value], st), k)

    def s_AnnAssign(self, n, st):
        if n.value is None:
            return [(st, None)]
        return self.lift(self.ev(n.value, st), lambda st1, v: self.assign(n.target, v, st1))

    def s_Delete(self, n, st):
        raise OutOfReach('del')

    def s_FunctionDef(self, n, st):
        st.env[n.name] = VFunc(n.name, node=n, closure=dict(st.env))
        return [(st, None)]

    def s_If(self, n, st):
        def k(st1, c):
            cond = self.truth(c, st1)
            a, b = self.fork(st1, cond)
            out = []
            if a is not None:
                out.extend(self.block(n.body, a))
            if b is not None:
                out.extend(self.block(n.orelse, b))
            return out
        return self.lift(self.ev(n.test, st), k)

    # ----------------------------------------------------------------- try
    def s_Try(self, n, st):
        results = []
        for st1, flow in self.block(n.body, st):
            if flow is not None and flow[0] == 'raise':
                results.extend(self.handle(n, st1, flow[1]))
            elif flow is None and n.orelse:
                results.extend(self.block(n.orelse, st1))
            else:
                results.append((st1, flow))
        if not n.finalbody:
            return results
        out = []
        for st1, flow in results:
            for st2, f2 in self.block(n.finalbody, st1):
                out.append((st2, flow if f2 is None else f2))
        return out

    def handle(self, n, st, exc):
        """dispatch exception to the handlers of try node n"""
        out = []
        cur = st
        for h in n.handlers:
            if cur is None:
                break
            if h.type is None:
                cond = t.TRUE
            else:
                names = [h.type] if not isinstance(h.type, ast.Tuple) else list(h.type.elts)
                conds = []
                for nm in names:
                    nmtxt = ast.unparse(nm)
                    if not self.src.is_exc_class(nmtxt):
                        raise OutOfReach('except %s' % nmtxt)
                    conds.append(self.exc_sub_term(exc.cls, nmtxt))
                cond = t.or_(*conds)
            a, b = self.fork(cur, cond)
            if a is not None:
                if h.name:
                    a.env[h.name] = exc
                a.excstack.append(exc)
                # ghost (C13): an explicit Error field must never be swallowed; re-raising handlers leave through 'raise'
                code = self.src.exc_code.get('ExplicitError')
                if code is not None:
                    is_explicit = t.eq(exc.cls, I(code))
                    k = a.known(is_explicit)
                    if k is not False:
                        prev = a.ghost.get('swallowed_explicit', t.FALSE)
                        a.ghost['swallowed_explicit_pending'] = t.or_(prev, t.TRUE if k else is_explicit)
                for st2, fl in self.block(h.body, a):
                    if st2.excstack:
                        st2.excstack.pop()
                    pend = st2.ghost.pop('swallowed_explicit_pending', None)
                    if pend is not None and not (fl is not None and fl[0] == 'raise'):
                        st2.ghost['swallowed_explicit'] = pend     # the handler completed without raising: swallowed
                    out.append((st2, fl))
            cur = b
        if cur is not None:
            out.append((cur, ('raise', exc)))
        return out

    # ----------------------------------------------------------------- loops
    def loop_key(self, n):
        self.loop_ordinal += 1
        if isinstance(n, ast.While):
            text = 'while ' + ast.unparse(n.test)
        else:
            text = 'for %s in %s' % (ast.unparse(n.target), ast.unparse(n.iter))
        # the ordinal is the loop's STATIC position in the function under verification (source order), so that it is the same on
        # every path and survives edits to the loop's text; loops of inlined helpers / closures fall back to the visit count
        fn = getattr(self, 'fn_node', None)
        if fn is not None:
            static = getattr(self, '_static_loops', None)
            if static is None:
                static = self._static_loops = sorted((x for x in ast.walk(fn) if isinstance(x, (ast.For, ast.While))), key=lambda x: (x.lineno, x.col_offset))
            for i, x in enumerate(static):
                if x is n:
                    return i + 1, text
        return self.loop_ordinal, text

    def find_loop_spec(self, ordinal, text):
        """loop specifications are keyed by the loop's text; when the text changed (an edit to the guard or the iterable)
        the specification written for the loop at the same ordinal position and of the same kind is used, so that the
        edit is judged against the invariant instead of falling out of reach"""
        keys = list(self.loops)
        for key in keys:
            if key == text:
                self.loop_specs_used.add(key)
                return self.loops[key]
        fb = getattr(self, 'loop_fallback', None)
        if fb is None:
            fb = self.loop_fallback = {}
        if text in fb:                      # the same (edited) loop reached again on another path
            return self.loops[fb[text]]
        if ordinal <= len(keys):
            key = keys[ordinal - 1]
            if isinstance(key, str) and key.split(' ')[0] == text.split(' ')[0] and (key not in self.loop_specs_used or getattr(self, 'fn_node', None) is not None):
                self.loop_specs_used.add(key)
                fb[text] = key
                return self.loops[key]
        return None

    def can_unroll(self, n, st):
        return False

    def s_While(self, n, st):
        ordinal, text = self.loop_key(n)
        spec = self.find_loop_spec(ordinal, text)
        text = '#%d %s' % (ordinal, text)          # obligation names carry the static position: the lock keys on it, not on the text
        if spec is None:
            if self.default_loop is not None:
                try:
                    snapshot = st.clone()
                    nob = len(self.obls)
                    return self.unroll_while(n, st, text)
                except OutOfReach:
                    del self.obls[nob:]
                    return self.invariant_loop(n, snapshot, self.default_loop, text, None)
            return self.unroll_while(n, st, text)
        return self.invariant_loop(n, st, spec, text, None)

    def unroll_while(self, n, st, text):
        out = []
        work = [(st, 0)]
        while work:
            st0, it = work.pop()
            if it > self.MAX_UNROLL:
                raise OutOfReach('loop without invariant does not terminate concretely: ' + text)
            for st1, c in self.ev(n.test, st0):
                if isinstance(c, Raised):
                    out.append((st1, ('raise', c.exc)))
                    continue
                cond = self.truth(c, st1)
                if cond.op != 'bool' and st1.known(cond) is None:
                    raise OutOfReach('loop with symbolic guard needs an invariant: ' + text)
                take = cond.args[0] if cond.op == 'bool' else st1.known(cond)
                if not take:
                    out.extend(self.block(n.orelse, st1))
                    continue
                for st2, fl in self.block(n.body, st1):
                    if fl is None or fl[0] == 'continue':
                        work.append((st2, it + 1))
                    elif fl[0] == 'break':
                        out.append((st2, None))
                    else:
                        out.append((st2, fl))
        return out

    def s_For(self, n, st):
        ordinal, text = self.loop_key(n)
        spec = self.find_loop_spec(ordinal, text)
        text = '#%d %s' % (ordinal, text)

        def k(st1, itv):
            it = self.models.iterate(self, itv, st1)
            if it is None:
                raise OutOfReach('iteration over %r' % (itv,))
            if spec is None:
                if it.what != 'concrete':
                    if self.default_loop is not None:
                        return self.invariant_loop(n, st1, self.default_loop, text, it)
                    raise OutOfReach('for-loop over a symbolic sequence needs an invariant: ' + text)
                return self.unroll_for(n, st1, it)
            return self.invariant_loop(n, st1, spec, text, it)
        return self.lift(self.ev(n.iter, st), k)

    def unroll_for(self, n, st, it):
        out = []
        cur = [st]
        for item in it.items:
            nxt = []
            for st0 in cur:
                for st1, fl0 in self.assign(n.target, item, st0):
                    if fl0 is not None:
                        out.append((st1, fl0))
                        continue
                    for st2, fl in self.block(n.body, st1):
                        if fl is None or fl[0] == 'continue':
                            nxt.append(st2)
                        elif fl[0] == 'break':
                            out.append((st2, None))
                        else:
                            out.append((st2, fl))
            cur = nxt
        for st0 in cur:
            out.extend(self.block(n.orelse, st0))
        return out

    def invariant_loop(self, n, st, spec, text, it):
        """while/for with a loop specification: check invariant at entry, havoc, assume, run body once, check again."""
        fname = self.fnname
        entry = st.clone()
        st.ghost['LE'] = entry          # the state at the entry of the (last) loop, for postconditions stated relative to it
        k0 = None
        nterm = None
        if it is not None:
            k0 = t.ZERO
            nterm = it.n          # may be None for unbounded (itertools.count)
        # 1. entry obligations
        view = LoopView(self, st, entry, k0, nterm, self.loop_extra)
        for label, cond, *rest in spec.inv(view):
            self.emit(st, '%s/loop[%s]/entry/%s' % (fname, text, label), cond, kind='loop-entry', tags=spec.tags)
        # 2. havoc
        head = st.clone()
        self.models.havoc_loop(self, n, head, spec)
        # heap frame (C17): carried through every loop whose body may touch the heap (havoc BEFORE the invariant is assumed)
        frame_on = False
        if self.models.interface is not None and self.models.interface.loop_touches_heap(n):
            self.models.interface.havoc_heap(self, head)
            for label, cond in self.models.interface.loop_frame_clauses(self, head) + self.models.interface.scope_keys_clauses(self, head, entry):
                head.assume(cond)
            frame_on = True
        kvar = None
        if it is not None:
            kvar = fresh('k', t.INT)
            head.assume(t.ge(kvar, t.ZERO))
            if nterm is not None:
                head.assume(t.le(kvar, nterm))
        hview = LoopView(self, head, entry, kvar, nterm, self.loop_extra)
        for label, cond, *rest in spec.inv(hview):
            head.assume(cond)
        # type stability of loop-carried locals of unknown type (checked like any invariant clause)
        stable = []
        for name, v0 in entry.env.items():
            v1 = head.env.get(name)
            if isinstance(v0, VDyn) and isinstance(v1, VDyn) and v0.t.smt() != v1.t.smt():
                for tester in ('isint', '(_ is VBytes)', '(_ is VNone)', '(_ is VStr)', '(_ is VRef)'):
                    if entry.known(t.app(tester, t.BOOL, v0.t)) is True:
                        head.assume(t.app(tester, t.BOOL, v1.t))
                        stable.append((name, tester))
        # ghost 'an ExplicitError was swallowed' is carried through every loop as well
        sw0 = entry.ghost.get('swallowed_explicit', t.FALSE)
        sw_on = any(isinstance(x, ast.Try) for x in ast.walk(n))
        if sw_on:
            swh = fresh('swallowed', t.BOOL)
            head.ghost['swallowed_explicit'] = swh
            head.assume(t.implies(t.not_(sw0), t.not_(swh)))
        # adversarial streams: 'no short read/write has been silently accepted so far' is carried through every loop
        shorts = []
        for loc, o0 in entry.store.items():
            o1 = head.store.get(loc)
            if isinstance(o0, OStream) and o0.model == 'adv' and isinstance(o1, OStream) and o1.extra['__short'].t.smt() != o0.extra['__short'].t.smt():
                head.assume(t.implies(t.not_(o0.extra['__short'].t), t.not_(o1.extra['__short'].t)))
                shorts.append((loc, o0.extra['__short'].t))
        out = []
        # 3. evaluate guard
        if it is None:
            guard_results = []
            for st1, c in self.ev(n.test, head):
                if isinstance(c, Raised):
                    out.append((st1, ('raise', c.exc)))
                    continue
                a, b = self.fork(st1, self.truth(c, st1))
                guard_results.append((a, b))
        else:
            if nterm is None:
                guard_results = [(head, None)]
            else:
                a, b = self.fork(head, t.lt(kvar, nterm))
                guard_results = [(a, b)]
        for a, b in guard_results:
            if a is not None:
                # body
                a.ghost['loop_k'] = kvar if kvar is not None else t.ZERO
                if it is not None:
                    item = it.item(self, a, kvar)
                    starts = self.assign(n.target, item, a)
                else:
                    starts = [(a, None)]
                var0 = spec.variant(LoopView(self, a, entry, kvar, nterm, self.loop_extra)) if spec.variant else None
                for st1, fl0 in starts:
                    if fl0 is not None:
                        out.append((st1, fl0))
                        continue
                    for st2, fl in self.block(n.body, st1):
                        if fl is None or fl[0] == 'continue':
                            k2 = t.add(kvar, t.ONE) if kvar is not None else None
                            v2 = LoopView(self, st2, entry, k2, nterm, self.loop_extra)
                            for label, cond, *rest in spec.inv(v2):
                                if len(rest) >= 2 and rest[1]:
                                    # hints: facts that follow from definitions (each is an obligation of its own), then assumed
                                    for hi, h in enumerate(rest[1]):
                                        if isinstance(h, prelude.DefInstance):
                                            st2.assume(h.term)      # the defining equation itself, instantiated: nothing to prove
                                            continue
                                        self.emit(st2, '%s/loop[%s]/preserve/%s/hint%d' % (fname, text, label, hi), h, kind='hint', tags=spec.tags)
                                        st2.assume(h)
                                self.emit(st2, '%s/loop[%s]/preserve/%s' % (fname, text, label), cond, kind='loop-preserve', tags=spec.tags)
                            for name, tester in stable:
                                vv = st2.env.get(name)
                                goal = t.app(tester, t.BOOL, self.to_dyn(vv, st2)) if not isinstance(vv, (Unbound, MaybeBound)) else t.FALSE
                                if isinstance(vv, VInt) and tester == 'isint':
                                    goal = t.TRUE
                                self.emit(st2, '%s/loop[%s]/preserve/type-of-%s' % (fname, text, name), goal, kind='loop-preserve', tags=spec.tags)
                            if sw_on:
                                self.emit(st2, '%s/loop[%s]/preserve/no-ExplicitError-swallowed' % (fname, text),
                                          t.implies(t.not_(sw0), t.not_(st2.ghost.get('swallowed_explicit', t.FALSE))), kind='loop-preserve', tags=('C13',))
                            if frame_on:
                                for label, cond in self.models.interface.loop_frame_clauses(self, st2):
                                    self.emit(st2, '%s/loop[%s]/preserve/%s' % (fname, text, label), cond, kind='loop-preserve', tags=('C17',))
                                for label, cond in self.models.interface.scope_keys_clauses(self, st2, entry):
                                    self.emit(st2, '%s/loop[%s]/preserve/%s' % (fname, text, label), cond, kind='loop-preserve', tags=('C07', 'C17'))
                            for loc, s0 in shorts:
                                o2 = st2.store.get(loc)
                                self.emit(st2, '%s/loop[%s]/preserve/no-silent-short-io' % (fname, text), t.implies(t.not_(s0), t.not_(o2.extra['__short'].t)),
                                          kind='loop-preserve', tags=('C06',))
                            if var0 is not None:
                                var2 = spec.variant(v2)
                                self.emit(st2, '%s/loop[%s]/variant' % (fname, text), t.and_(t.ge(var0, t.ZERO), t.lt(var2, var0)),
                                          kind='loop-variant', tags=spec.variant_tags or spec.tags)
                        elif fl[0] == 'break':
                            st2.ghost['stopped'] = t.TRUE      # the loop was left by break (StopIf inside a member list)
                            out.append((st2, None))
                        else:
                            out.append((st2, fl))
            if b is not None:
                if it is not None and nterm is not None:
                    b.assume(t.eq(kvar, nterm))
                b.ghost['loop_k:' + text] = kvar
                out.extend(self.block(n.orelse, b))
        return out


def _free_names(lam):
    """names a lambda reads that are not its own parameters"""
    params = {a.arg for a in lam.args.args + lam.args.kwonlyargs + lam.args.posonlyargs}
    if lam.args.vararg:
        params.add(lam.args.vararg.arg)
    if lam.args.kwarg:
        params.add(lam.args.kwarg.arg)
    return {n.id for n in ast.walk(lam.body) if isinstance(n, ast.Name)} - params


def _as_load(node):
    if isinstance(node, ast.Name):
        return ast.Name(id=node.id, ctx=ast.Load())
    if isinstance(node, ast.Attribute):
        return ast.Attribute(value=node.value, attr=node.attr, ctx=ast.Load())
    if isinstance(node, ast.Subscript):
        return ast.Subscript(value=node.value, slice=node.slice, ctx=ast.Load())
    raise OutOfReach('augassign target')


class LoopSpec:
    def __init__(self, inv, variant=None, tags=(), variant_tags=None, havoc_kinds=None, modifies=None, generic_ok=False):
        self.inv, self.variant, self.tags, self.variant_tags = inv, variant, tuple(tags), variant_tags
        self.generic_ok = generic_ok      # may also be used when the method is verified against the cross-cutting (generic) contract
        self.havoc_kinds = havoc_kinds or {}
        self.modifies = modifies
