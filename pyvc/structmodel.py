"""E1: assumed contract of struct.pack / struct.unpack / struct.calcsize for the 12 format characters x '< > ='.

Integers: two's complement of the format's width in the stated byte order; values out of range or non-integers raise
struct.error (StructError).  '?' packs truthiness as one byte 0/1 and unpacks any non-zero byte as True.
Floats ('e','f','d'): an uninterpreted pair f_enc / f_dec over opaque float values; pack may raise struct.error or
OverflowError.  IEEE-754 rounding and NaN payloads are NOT modelled (stated in every evidence file).
The format string must be concrete (FormatField is verified once per format: finite enumeration of 36 formats).
"""
import sys

from . import terms as t, prelude
from .terms import I, S
from .values import *  # noqa
from .state import OutOfReach
from . import ops

SIZES = {'B': 1, 'b': 1, 'H': 2, 'h': 2, 'L': 4, 'l': 4, 'Q': 8, 'q': 8, 'e': 2, 'f': 4, 'd': 8, '?': 1}
prelude.define('le_val', """(define-fun-rec le_val ((a (Array Int Int)) (lo Int) (hi Int)) Int
  (ite (<= hi lo) 0 (+ (select a lo) (* 256 (le_val a (+ lo 1) hi)))))""", doc='little-endian unsigned value of a[lo:hi]')
prelude.declare_fun('f_enc', [t.INT, t.VAL], t.ARR)
prelude.declare_fun('f_dec', [t.INT, t.ARR, t.INT], t.VAL)
prelude.declare_fun('f_packable', [t.INT, t.VAL], t.BOOL)
prelude.declare_fun('is_float', [t.VAL], t.BOOL)


def concrete_str(v):
    if isinstance(v, VStr) and v.t is not None and v.t.op == 'strlit':
        return v.t.args[0]
    raise OutOfReach('struct format must be concrete')


def little(endian):
    return endian == '<' or (endian == '=' and sys.byteorder == 'little')


def call(models, eng, name, args, kws, st):
    fmt = concrete_str(args[0])
    if len(fmt) != 2 or fmt[0] not in '<>=' or fmt[1] not in SIZES:
        raise OutOfReach('struct format %r' % fmt)
    ch = fmt[1]
    w = SIZES[ch]
    if name == 'struct.calcsize':
        return [(st, VInt(I(w)))]
    val_fn = 'le_val' if little(fmt[0]) else 'be_val'
    if name == 'struct.pack':
        obj = args[1]
        out = []
        if ch == '?':
            tr = eng.truth(obj, st)
            arr = t.store(t.const_arr(t.ZERO), t.ZERO, t.ite(tr, t.ONE, t.ZERO))
            return [(st, VBytes(arr, t.ZERO, I(1)))]
        if ch in 'efd':
            ov = eng.to_dyn(obj, st)
            code = I({'e': 2, 'f': 4, 'd': 8}[ch] * 10 + (1 if little(fmt[0]) else 0))
            okc = t.app('f_packable', t.BOOL, code, ov)
            good, bad = eng.fork(st, okc)
            if good is not None:
                arr = t.app('f_enc', t.ARR, code, ov)
                eng.assume_byte_range(good, arr, t.ZERO, I(w))
                out.append((good, VBytes(arr, t.ZERO, I(w))))
            if bad is not None:
                b2 = bad.clone()
                out.extend(eng.raise_(bad, 'StructError', origin='struct.pack of a non-number'))
                out.extend(eng.raise_(b2, 'OverflowError', origin='float too large to pack'))
            return out
        iv, ok = eng.as_int(obj, st)
        signed = ch.islower()
        lo, hi = (-(2 ** (8 * w - 1)), 2 ** (8 * w - 1) - 1) if signed else (0, 2 ** (8 * w) - 1)
        if iv is None:
            return eng.raise_(st, 'StructError', origin='struct.pack of a non-integer')
        # bool is accepted by integer formats (bool is an int)
        okc = t.and_(ok, t.le(I(lo), iv), t.le(iv, I(hi)))
        good, bad = eng.fork(st, okc)
        if good is not None:
            r = fresh('packed', t.ARR)
            eng.assume_byte_range(good, r, t.ZERO, I(w))
            good.assume(t.eq(t.app(val_fn, t.INT, r, t.ZERO, I(w)), t.ite(t.lt(iv, t.ZERO), t.add(iv, I(2 ** (8 * w))), iv)))
            out.append((good, VBytes(r, t.ZERO, I(w))))
        if bad is not None:
            out.extend(eng.raise_(bad, 'StructError', origin='struct.pack: not an integer in range'))
        return out
    if name == 'struct.unpack':
        data = models.as_bytes(eng, args[1], st)
        if data is None:
            return eng.raise_(st, 'TypeError', origin='struct.unpack of non-bytes')
        out = []
        good, bad = eng.fork(st, t.eq(data.len, I(w)))
        if bad is not None:
            out.extend(eng.raise_(bad, 'StructError', origin='unpack requires a buffer of %d bytes' % w))
        if good is not None:
            if ch == '?':
                v = VBool(t.ne(data.at(t.ZERO), t.ZERO))
            elif ch in 'efd':
                code = I({'e': 2, 'f': 4, 'd': 8}[ch] * 10 + (1 if little(fmt[0]) else 0))
                v = VDyn(t.app('f_dec', t.VAL, code, data.arr, data.off))
            else:
                u = t.app(val_fn, t.INT, data.arr, data.off, t.add(data.off, I(w)))
                if ch.islower():
                    top = data.at(I(w - 1)) if little(fmt[0]) else data.at(t.ZERO)
                    v = VInt(t.ite(t.ge(top, I(128)), t.sub(u, I(2 ** (8 * w))), u))
                else:
                    v = VInt(u)
            out.append((good, VTuple([v])))
        return out
    raise OutOfReach(name)
