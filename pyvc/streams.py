"""Stream models (DESIGN.md 2.4).

bytesio   exact model of io.BytesIO (assumed contract E3, differential-tested against CPython in the thorough tier):
          read(n)/read() return a view of the buffer and advance; write overwrites/appends at pos (zero-fills a gap,
          empty writes change nothing); seek(o, w) with w in 0,1,2 (negative absolute -> ValueError, relative seeks
          clamp at 0); tell; getvalue.
adv       adversarial stream: every method may raise any Exception subclass; read returns bytes of arbitrary length
          and content; write/seek/tell return arbitrary ints.
offsets   construct.core.BytesIOWithOffsets seen through its abstract view (verified against the real class in
          contracts/streams.py): a bytesio whose tell() adds, and whose absolute seek subtracts, the parent offset.
"""
from . import terms as t
from .terms import I, Bc
from .values import *  # noqa
from .state import OutOfReach


from . import prelude as _prelude
_prelude.declare_fun('shift', [t.ARR, t.INT], t.ARR)


def shift(arr, k):
    """the array i -> arr[k + i] (re-basing a view at index 0); defined pointwise by the axiom added where it is created"""
    if k.op == 'int' and k.args[0] == 0:
        return arr
    return t.app('shift', t.ARR, arr, k)


def _shift_axioms(x):
    i = t.var('sh!', t.INT)
    return [t.forall([i], t.eq(t.select(x, i), t.select(x.args[0], t.add(x.args[1], i))), pats=[[t.select(x, i)]])]


_prelude.AXIOMATIZED['shift'] = _shift_axioms
# awrite(buf, len, pos, data, doff, n): the buffer of an io.BytesIO after writing n > 0 bytes data[doff:doff+n] at pos
_prelude.declare_fun('awrite', [t.ARR, t.INT, t.INT, t.ARR, t.INT, t.INT], t.ARR)


def _awrite_axioms(x):
    buf, ln, pos, d, doff, n = x.args
    i = t.var('aw!', t.INT)
    inside = t.and_(t.le(pos, i), t.lt(i, t.add(pos, n)))
    gap = t.and_(t.le(ln, i), t.lt(i, pos))
    return [t.forall([i], t.eq(t.select(x, i), t.ite(inside, t.select(d, t.add(doff, t.sub(i, pos))), t.ite(gap, t.ZERO, t.select(buf, i)))),
                     pats=[[t.select(x, i)]])]


_prelude.AXIOMATIZED['awrite'] = _awrite_axioms


def shift_axiom(arr, k):
    i = t.var('i!', t.INT)
    sh = t.app('shift', t.ARR, arr, k)
    return t.forall([i], t.eq(t.select(sh, i), t.select(arr, t.add(k, i))), pats=[[t.select(sh, i)]])


def new_bytesio(eng, st, content=None, model='bytesio', parent=None, offset=None):
    if content is None:
        buf, ln = t.const_arr(t.ZERO), t.ZERO
        return st.alloc(OStream(model, buf=buf, ln=ln, pos=t.ZERO, parent=parent, offset=offset), 'stream')
    if content.off.op == 'int' and content.off.args[0] == 0:
        buf = content.arr
    else:
        # re-base the view at 0: the (deterministically named) shifted array
        buf = shift(content.arr, content.off)
        st.assume(shift_axiom(content.arr, content.off))
    return st.alloc(OStream(model, buf=buf, ln=content.len, pos=t.ZERO, parent=parent, offset=offset), 'stream')


def symbolic_stream(eng, st, name='stream', model='bytesio'):
    """a stream argument in an arbitrary state"""
    if model == 'adv':
        return st.alloc(OStream('adv', ident=fresh(name + '_id', t.INT), extra={'__short': VBool(t.FALSE)}), 'stream')
    buf = fresh(name + '_buf', t.ARR)
    ln = fresh(name + '_len', t.INT)
    pos = fresh(name + '_pos', t.INT)
    st.assume(t.ge(ln, t.ZERO))
    st.assume(t.ge(pos, t.ZERO))
    eng.assume_byte_range(st, buf, t.ZERO, ln)
    off = None
    if model == 'offsets':
        off = fresh(name + '_offset', t.INT)
    return st.alloc(OStream(model, buf=buf, ln=ln, pos=pos, offset=off, ident=fresh(name + '_id', t.INT)), 'stream')


def stream_method(models, eng, ref, name, args, kws, st):
    o = st.get(ref)
    if o.model == 'adv':
        return adv_method(models, eng, ref, o, name, args, kws, st)
    if o.model in ('bytesio', 'offsets'):
        return bytesio_method(models, eng, ref, o, name, args, kws, st)
    raise OutOfReach('stream model %s' % o.model)


def adv_method(models, eng, ref, o, name, args, kws, st):
    out = []
    # may raise any Exception subclass
    bad = st.clone()
    ec = fresh('stream_exc', t.INT)
    bad.assume(eng.exc_sub_term(ec, 'Exception'))
    bad.ghost['io_failed'] = t.TRUE          # C06 ghost: a stream operation failed on this path
    out.append((bad, Raised(VExc(ec, NONE, origin='failing stream.%s' % name, from_stream=True))))
    short = o.extra.get('__short', VBool(t.FALSE)).t
    if name == 'read':
        data = eng.fresh_bytes(st, 'advread')
        n = args[0] if args else NONE
        iv, ok = eng.as_int(n, st) if not isinstance(n, VNone) else (None, None)
        # short READS are visible to the caller through the length of the returned data (stream_read checks it);
        # the ghost flag tracks short WRITES, which are visible only through write()'s return value
        out.append((st, data))
    elif name == 'write':
        w = fresh('advwrite', t.INT)
        d = models.as_bytes(eng, args[0], st)
        if d is not None:
            st.put(ref, o.replace(extra=dict(o.extra, __short=VBool(t.or_(short, t.ne(w, d.len))))))
        elif isinstance(args[0], VDyn):
            st.put(ref, o.replace(extra=dict(o.extra, __short=VBool(t.or_(short, t.ne(w, t.app('blen', t.INT, args[0].t)))))))
        out.append((st, VInt(w)))
    elif name in ('tell', 'seek'):
        out.append((st, VInt(fresh('adv' + name, t.INT))))
    elif name in ('close', 'flush'):
        out.append((st, NONE))
    elif name == 'getvalue':
        out.append((st, eng.fresh_bytes(st, 'advgetvalue')))
    else:
        raise OutOfReach('adversarial stream method %s' % name)
    return out


def bytesio_method(models, eng, ref, o, name, args, kws, st):
    base = t.ZERO if o.model == 'bytesio' else o.offset
    if name == 'read':
        n = args[0] if args else kws.get('size', NONE)
        avail = t.imax(t.sub(o.len, o.pos), t.ZERO)
        if isinstance(n, VNone):
            k = avail
            st.put(ref, o.replace(pos=t.add(o.pos, k)))
            return [(st, VBytes(o.buf, o.pos, k))]
        iv, ok = eng.as_int(n, st)
        if iv is None:
            return eng.raise_(st, 'TypeError', origin='read size')

        def go(st1):
            k = t.ite(t.lt(iv, t.ZERO), avail, t.imin(iv, avail))
            st1.put(ref, o.replace(pos=t.add(o.pos, k)))
            return [(st1, VBytes(o.buf, o.pos, k))]
        return eng.typed(st, ok, go, 'read size')
    if name == 'write':
        d = models.as_bytes(eng, args[0], st)
        if d is None:
            if isinstance(args[0], VDyn):
                tb = t.app('(_ is VBytes)', t.BOOL, args[0].t)

                def go(st1):
                    d2 = eng.dyn_bytes(args[0], st1)
                    return do_write(eng, ref, o, d2, st1)
                return eng.typed(st, tb, go, 'write of non-bytes')
            return eng.raise_(st, 'TypeError', origin='write of non-bytes')
        return do_write(eng, ref, o, d, st)
    if name == 'tell':
        return [(st, VInt(t.add(o.pos, base)))]
    if name == 'getvalue':
        return [(st, VBytes(o.buf, t.ZERO, o.len))]
    if name == 'seek':
        off = args[0]
        wh = args[1] if len(args) > 1 else kws.get('whence', VInt(t.ZERO))
        iv, ok1 = eng.as_int(off, st)
        wv, ok2 = eng.as_int(wh, st)
        if iv is None or wv is None:
            return eng.raise_(st, 'TypeError', origin='seek args')

        def go(st1):
            out = []
            cur = st1
            for w in (0, 1, 2):
                if cur is None:
                    break
                a, cur = eng.fork(cur, t.eq(wv, I(w)))
                if a is None:
                    continue
                if w == 0:
                    target = t.sub(iv, base)
                    okk, neg = eng.fork(a, t.ge(target, t.ZERO))
                    if okk is not None:
                        okk.put(ref, o.replace(pos=target))
                        out.append((okk, VInt(t.add(target, base))))
                    if neg is not None:
                        out.extend(eng.raise_(neg, 'ValueError', origin='negative seek value'))
                else:
                    ref0 = o.pos if w == 1 else o.len
                    target = t.imax(t.add(ref0, iv), t.ZERO)
                    a.put(ref, o.replace(pos=target))
                    out.append((a, VInt(t.add(target, base))))
            if cur is not None:
                out.extend(eng.raise_(cur, 'ValueError', origin='invalid whence'))
            return out
        return eng.typed(st, t.and_(ok1, ok2), go, 'seek args')
    if name in ('close', 'flush'):
        return [(st, NONE)]
    raise OutOfReach('BytesIO method %s' % name)


def do_write(eng, ref, o, d, st):
    n = d.len
    out = []
    nz, z = eng.fork(st, t.gt(n, t.ZERO))
    if z is not None:
        out.append((z, VInt(t.ZERO)))
    if nz is not None:
        # the new buffer is a deterministic term; its pointwise definition is added wherever the term occurs (prelude.AXIOMATIZED)
        buf2 = t.app('awrite', t.ARR, o.buf, o.len, o.pos, d.arr, d.off, n)
        nz.put(ref, o.replace(buf=buf2, ln=t.imax(o.len, t.add(o.pos, n)), pos=t.add(o.pos, n)))
        out.append((nz, VInt(n)))
    return out
