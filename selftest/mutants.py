"""Engine/contract self-test: deliberately broken bodies; each must fail at least one obligation of the named property.
Run:  python selftest/mutants.py [id-substring ...]     (scratch copies under /tmp, removed after each mutant)"""
import os, sys, subprocess, shutil, tempfile, json, time
ROOT = os.path.dirname(os.path.dirname(os.path.abspath(__file__)))
CORE, BIN, PY3, BS, EXPR, CONT = 'construct/core.py', 'construct/lib/binary.py', 'construct/lib/py3compat.py', 'construct/lib/bitstream.py', 'construct/expr.py', 'construct/lib/containers.py'
MUTANTS = [
    # id, property, file, old, new
    ('adapter-build-returns-encoded', 'C13', CORE, "        obj2 = self._encode(obj, context, path)\n        buildret = self.subcon._build(obj2, stream, context, path)\n        return obj", "        obj2 = self._encode(obj, context, path)\n        buildret = self.subcon._build(obj2, stream, context, path)\n        return obj2"),
    ('adapter-build-skips-encode', 'C13', CORE, "        obj2 = self._encode(obj, context, path)\n        buildret = self.subcon._build(obj2, stream, context, path)\n        return obj", "        obj2 = self._encode(obj, context, path)\n        buildret = self.subcon._build(obj, stream, context, path)\n        return obj"),
    ('adapter-parse-uses-encode', 'C13', CORE, "        obj = self.subcon._parsereport(stream, context, path)\n        return self._decode(obj, context, path)", "        obj = self.subcon._parsereport(stream, context, path)\n        return self._encode(obj, context, path)"),
    ('struct-sizeof-plus-one', 'C05', CORE, "            return sum(sc._sizeof(context, path) for sc in self.subcons)", "            return sum(sc._sizeof(context, path) for sc in self.subcons) + 1"),
    ('select-parse-no-seek-back', 'C09', CORE, "            except Exception:\n                stream_seek(stream, fallback, 0, path)\n            else:\n                return obj\n        raise SelectError(\"no subconstruct matched\", path=path)", "            except Exception:\n                pass\n            else:\n                return obj\n        raise SelectError(\"no subconstruct matched\", path=path)"),
    ('greedyrange-no-seek-back', 'C09', CORE, "            if fallback is None:\n                raise\n            stream_seek(stream, fallback, 0, path)\n        return obj", "            if fallback is None:\n                raise\n        return obj"),
    ('greedyrange-fallback-after-parse', 'C09', CORE, "                fallback = stream_tell(stream, path)\n                e = self.subcon._parsereport(stream, context, path)\n                if not discard:\n                    obj.append(e)\n        except StopFieldError:", "                e = self.subcon._parsereport(stream, context, path)\n                fallback = stream_tell(stream, path)\n                if not discard:\n                    obj.append(e)\n        except StopFieldError:"),
    ('array-parse-index-off', 'C07', CORE, "        for i in range(count):\n            context._index = i\n            e = self.subcon._parsereport(stream, context, path)", "        for i in range(count):\n            context._index = i + 1\n            e = self.subcon._parsereport(stream, context, path)"),
    ('array-parse-count-off', 'C03', CORE, "        obj = ListContainer()\n        for i in range(count):\n            context._index = i\n            e = self.subcon._parsereport(stream, context, path)", "        obj = ListContainer()\n        for i in range(count + 1):\n            context._index = i\n            e = self.subcon._parsereport(stream, context, path)"),
    ('array-build-len-check', 'C03', CORE, "        if not len(obj) == count:\n            raise RangeError(\"expected %d elements, found %d\" % (count, len(obj)), path=path)\n        discard = self.discard\n        retlist = ListContainer()\n        for i,e in enumerate(obj):\n            context._index = i\n            buildret = self.subcon._build(e, stream, context, path)\n            if not discard:\n                retlist.append(buildret)\n        return retlist\n\n    def _sizeof(self, context, path):\n        try:\n            count = evaluate(self.count, context)\n        except (KeyError, AttributeError):",
     "        if len(obj) < count:\n            raise RangeError(\"expected %d elements, found %d\" % (count, len(obj)), path=path)\n        discard = self.discard\n        retlist = ListContainer()\n        for i,e in enumerate(obj):\n            context._index = i\n            buildret = self.subcon._build(e, stream, context, path)\n            if not discard:\n                retlist.append(buildret)\n        return retlist\n\n    def _sizeof(self, context, path):\n        try:\n            count = evaluate(self.count, context)\n        except (KeyError, AttributeError):"),
    ('array-sizeof-plus', 'C05', CORE, "        return count * self.subcon._sizeof(context, path)\n\n    def _emitparse(self, code):\n        return f\"ListContainer(({self.subcon._compileparse(code)}) for i in range({self.count}))\"", "        return count + self.subcon._sizeof(context, path)\n\n    def _emitparse(self, code):\n        return f\"ListContainer(({self.subcon._compileparse(code)}) for i in range({self.count}))\""),
    ('lazy-relative-skip', 'C16', CORE, "        stream_seek(stream, offset + len, 0, path)\n        return execute", "        stream_seek(stream, len, 1, path)\n        return execute"),
    ('lazy-thunk-no-restore', 'C16', CORE, "            obj = self.subcon._parsereport(stream, context, path)\n            stream_seek(stream, fallback, 0, path)\n            return obj", "            obj = self.subcon._parsereport(stream, context, path)\n            return obj"),
    ('lazycontainer-no-restore', 'C16', CORE, "        parseret = self._struct.subcons[index]._parsereport(self._stream, self._context, self._path)\n        stream_seek(self._stream, fallback, 0, self._path)\n", "        parseret = self._struct.subcons[index]._parsereport(self._stream, self._context, self._path)\n"),
    ('lazycontainer-cache-wrong-slot', 'C16', CORE, "        stream_seek(self._stream, fallback, 0, self._path)\n        self._values[index] = parseret\n        return parseret\n\n    def __len__(self):\n        return len(self._struct.subcons)", "        stream_seek(self._stream, fallback, 0, self._path)\n        self._values[index+1] = parseret\n        return parseret\n\n    def __len__(self):\n        return len(self._struct.subcons)"),
    ('lazylist-negative-index', 'C16', CORE, "        if index < 0:\n            index += self._count\n        if index in self._values:", "        if index in self._values:"),
    ('lazylist-wrong-offset', 'C16', CORE, "        stream_seek(self._stream, self._offsets[index], 0, self._path) # KeyError\n        parseret = self._subcon._parsereport", "        stream_seek(self._stream, self._offsets[index+1], 0, self._path) # KeyError\n        parseret = self._subcon._parsereport"),
    ('hex-decode-sizeof-leak', 'C12', CORE, "            try:\n                fmtstr = \"0%sX\" % (2 * self.subcon._sizeof(context, path))\n            except SizeofError:\n                fmtstr = \"X\"\n            return HexDisplayedInteger.new(obj, fmtstr)", "            return HexDisplayedInteger.new(obj, \"0%sX\" % (2 * self.subcon._sizeof(context, path)))"),
    ('optional-macro', 'C12', CORE, "    return Select(subcon, Pass)", "    return Select(Pass, subcon)"),
    ('int24ul-alias', 'C12', CORE, '    \"\"\"A 3-byte little-endian unsigned integer, as used in ancient file formats.\"\"\"\n    return BytesInteger(3, signed=False, swapped=True)', '    \"\"\"A 3-byte little-endian unsigned integer, as used in ancient file formats.\"\"\"\n    return BytesInteger(3, signed=False, swapped=False)'),
    ('nullstripped-step', 'C08', CORE, "            while end-unit >= 0 and data[end-unit:end] == pad:\n                end -= unit", "            while end-unit >= 0 and data[end-unit:end] == pad:\n                end -= 1"),
    ('nullstripped-tail', 'C08', CORE, "if tailunit and data[-tailunit:] == pad[:tailunit]:", "if tailunit and data[-tailunit:] == pad[-tailunit:]:"),
    ('nullstripped-plain-stream', 'C08', CORE, "            data = data[:end]\n        substream = BytesIOWithOffsets(data, stream, offset)", "            data = data[:end]\n        substream = BytesIOWithOffsets(data, stream, 0)"),
    ('entry-parse-flag', 'C07', CORE, "        context._parsing = True\n        context._building = False\n        context._sizing = False\n        context._params = context\n        try:", "        context._parsing = True\n        context._building = True\n        context._sizing = False\n        context._params = context\n        try:"),
    ('entry-sizeof-path', 'C18', CORE, 'return self._sizeof(context, "(sizeof)")', 'return self._sizeof(context, "(sizing)")'),
    ('entry-build-params-copy', 'C07', CORE, "        context._sizing = False\n        context._params = context\n        self._build(obj, stream, context, \"(building)\")", "        context._sizing = False\n        context._params = Container(**contextkw)\n        self._build(obj, stream, context, \"(building)\")"),
    ('entry-parse-file-drops-kw', 'C17', CORE, "            return self.parse_stream(f, **contextkw)", "            return self.parse_stream(f)"),
    ('entry-build-drops-obj', 'C17', CORE, "        stream = io.BytesIO()\n        self.build_stream(obj, stream, **contextkw)\n        return stream.getvalue()", "        stream = io.BytesIO()\n        self.build_stream(None, stream, **contextkw)\n        return stream.getvalue()"),
    ('transformed-uses-encodefunc-on-parse', 'C10', CORE, "        data = self.decodefunc(data)\n        return self.subcon._parsereport(io.BytesIO(data), context, path)", "        data = self.encodefunc(data)\n        return self.subcon._parsereport(io.BytesIO(data), context, path)"),
    ('transformed-build-checks-decodeamount', 'C10', CORE, "            if len(data) != self.encodeamount:", "            if len(data) < self.encodeamount:"),
    ('bitsint-swapped-skipped-on-build', 'C10', CORE, "            data = integer2bits(obj, length, self.signed)\n            if evaluate(self.swapped, context):\n                data = swapbytesinbits(data)", "            data = integer2bits(obj, length, self.signed)\n            if evaluate(self.swapped, context) and length > 8:\n                data = swapbytesinbits(data)"),
    ('xor-parse-cycle', 'C15', CORE, "                data = bytes((b ^ p) for b,p in zip(data, itertools.cycle(pad)))\n        substream", "                data = bytes((b ^ p) for b,p in zip(data, itertools.cycle(pad[::-1])))\n        substream"),
    ('xor-build-zero-shortcut', 'C15', CORE, "            if not (pad == 0):\n                data = bytes((b ^ pad) for b in data)\n        if isinstance(pad, bytes):\n            if not (len(pad) <= 64 and pad == bytes(len(pad))):\n                data = bytes((b ^ p) for b,p in zip(data, itertools.cycle(pad)))\n        stream_write",
     "            if not (pad == 0):\n                data = bytes((b ^ pad) for b in data)\n        if isinstance(pad, bytes):\n            if not (len(pad) <= 64 and pad[:1] == bytes(1)):\n                data = bytes((b ^ p) for b,p in zip(data, itertools.cycle(pad)))\n        stream_write"),
    ('rot-build-not-negated', 'C15', CORE, "        amount = -amount % (group * 8)", "        amount = amount % (group * 8)"),
    ('rot-pair-index', 'C15', CORE, "indices_pairs = [ ((i+amount_bytes) % group, (i+1+amount_bytes) % group) for i in range(group)]\n            data = bytes((data[i+k1] << amount1) & 0xff | (data[i+k2] >> amount2) for i in range(0,len(data),group) for k1,k2 in indices_pairs)\n\n        return",
     "indices_pairs = [ ((i+amount_bytes) % group, (i+amount_bytes-1) % group) for i in range(group)]\n            data = bytes((data[i+k1] << amount1) & 0xff | (data[i+k2] >> amount2) for i in range(0,len(data),group) for k1,k2 in indices_pairs)\n\n        return"),
    ('rot-amount2', 'C15', CORE, "            amount2 = 8 - amount1\n            indices_pairs = [ ((i+amount_bytes) % group, (i+1+amount_bytes) % group) for i in range(group)]\n            data = bytes((data[i+k1] << amount1) & 0xff | (data[i+k2] >> amount2) for i in range(0,len(data),group) for k1,k2 in indices_pairs)\n\n        stream_write",
     "            amount2 = 7 - amount1\n            indices_pairs = [ ((i+amount_bytes) % group, (i+1+amount_bytes) % group) for i in range(group)]\n            data = bytes((data[i+k1] << amount1) & 0xff | (data[i+k2] >> amount2) for i in range(0,len(data),group) for k1,k2 in indices_pairs)\n\n        stream_write"),
    ('rot-length-check', 'C15', CORE, "        data = stream_read_entire(stream, path)\n\n        if len(data) % group != 0:\n            raise RotationError", "        data = stream_read_entire(stream, path)\n\n        if len(data) % group > 1:\n            raise RotationError"),
    ('rot-bytes-only', 'C15', CORE, "            indices = [(i + amount_bytes) % group for i in range(group)]\n            data = bytes(data[i+k] for i in range(0,len(data),group) for k in indices)\n\n        else:\n            amount1 = amount % 8\n            amount2 = 8 - amount1\n            indices_pairs = [ ((i+amount_bytes) % group, (i+1+amount_bytes) % group) for i in range(group)]\n            data = bytes((data[i+k1] << amount1) & 0xff | (data[i+k2] >> amount2) for i in range(0,len(data),group) for k1,k2 in indices_pairs)\n\n        return",
     "            indices = [(i - amount_bytes) % group for i in range(group)]\n            data = bytes(data[i+k] for i in range(0,len(data),group) for k in indices)\n\n        else:\n            amount1 = amount % 8\n            amount2 = 8 - amount1\n            indices_pairs = [ ((i+amount_bytes) % group, (i+1+amount_bytes) % group) for i in range(group)]\n            data = bytes((data[i+k1] << amount1) & 0xff | (data[i+k2] >> amount2) for i in range(0,len(data),group) for k1,k2 in indices_pairs)\n\n        return"),
    ('varint-build-ge', 'C03', CORE, "while x > 0b01111111:", "while x >= 0b01111111:"),
    ('varint-parse-mask', 'C03', CORE, "acc.append(b & 0b01111111)", "acc.append(b & 0b00111111)"),
    ('varint-parse-cont', 'C03', CORE, "if b & 0b10000000 == 0:", "if b & 0b01000000 == 0:"),
    ('varint-parse-shift', 'C03', CORE, "num = (num << 7) | b", "num = (num << 8) | b"),
    ('varint-build-mask', 'C03', CORE, "B.append(0b10000000 | (x & 0b01111111))", "B.append(0b10000000 | (x & 0b00111111))"),
    ('zigzag-parse', 'C03', CORE, "x = -(x//2+1)", "x = -(x//2)"),
    ('zigzag-build', 'C03', CORE, "x = 2*abs(obj)-1", "x = 2*abs(obj)+1"),
    ('flag-parse', 'C03', CORE, 'return stream_read(stream, 1, path) != b"\\x00"', 'return stream_read(stream, 1, path) == b"\\x01"'),
    ('i2b-mask', 'C03', BIN, "bits[i] = number & 1", "bits[i] = number & 3"),
    ('i2b-start', 'C03', BIN, "    i = width - 1\n", "    i = width - 2\n"),
    ('i2b-min', 'C03', BIN, "min = -(2 ** width // 2)", "min = -(2 ** width // 2) - 1"),
    ('i2b-neg', 'C03', BIN, "number += 1 << width", "number += (1 << width) - 1"),
    ('b2i-bias', 'C03', BIN, "bias = 1 << len(data)", "bias = 1 << (len(data)-1)"),
    ('b2i-shift', 'C03', BIN, "number = (number << 1) | b", "number = (number << 2) | b"),
    ('b2i-sign', 'C03', BIN, "if signed and data[0]:", "if signed and data[-1]:"),
    ('i2b-max', 'C03', BIN, "max = 2 ** width - 1", "max = 2 ** width"),
    ('swapbytes', 'C03', BIN, "return data[::-1]", "return data"),
    ('byte2int', 'C03', PY3, "return character[0]", "return character[-1]"),
    ('sread-len', 'C06', CORE, "    if len(data) != length:\n        raise StreamError(\"stream read less", "    if len(data) > length:\n        raise StreamError(\"stream read less"),
    ('stell-path', 'C18', CORE, "raise StreamError(\"stream.tell() failed\", path=path)", "raise StreamError(\"stream.tell() failed\")"),
    ('swrite-short', 'C06', CORE, "    if written != length:", "    if written > length:"),
    ('padded-nopath', 'C18', CORE, "            raise PaddingError(\"length cannot be negative\", path=path)\n        position1 = stream_tell(stream, path)\n        obj = self.subcon._parsereport",
     "            raise PaddingError(\"length cannot be negative\")\n        position1 = stream_tell(stream, path)\n        obj = self.subcon._parsereport"),
    ('renamed-build-nopath', 'C18', CORE, "        path += \" -> %s\" % (self.name,)\n        return self.subcon._build(obj, stream, context, path)", "        return self.subcon._build(obj, stream, context, path)"),
    ('array-freshpath', 'C18', CORE, "            e = self.subcon._parsereport(stream, context, path)\n            if not discard:\n                obj.append(e)\n        return obj",
     "            e = self.subcon._parsereport(stream, context, \"(parsing)\")\n            if not discard:\n                obj.append(e)\n        return obj"),
    ('bytes-sizeof-notry', 'C05', CORE, "        try:\n            return self.length(context) if callable(self.length) else self.length\n        except (KeyError, AttributeError):\n            raise SizeofError(\"cannot calculate size, key not found in context\", path=path)",
     "        return self.length(context) if callable(self.length) else self.length"),
    ('array-sizeof-keyerror-only', 'C05', CORE, "            count = evaluate(self.count, context)\n        except (KeyError, AttributeError):\n            raise SizeofError(\"cannot calculate size, key not found in context\", path=path)\n        return count * self.subcon._sizeof(context, path)",
     "            count = evaluate(self.count, context)\n        except KeyError:\n            raise SizeofError(\"cannot calculate size, key not found in context\", path=path)\n        return count * self.subcon._sizeof(context, path)"),
    ('flag-direct-read', 'C06', CORE, 'return stream_read(stream, 1, path) != b"\\x00"', 'return stream.read(1) != b"\\x00"'),
    ('mapping-decode-except', 'C06', CORE, "            return self.decmapping[obj] # KeyError\n        except (KeyError, TypeError):", "            return self.decmapping[obj] # KeyError\n        except TypeError:"),
    ('array-self-store', 'C17', CORE, "        discard = self.discard\n        obj = ListContainer()\n        for i in range(count):", "        discard = self.discard\n        self.lastcount = count\n        obj = ListContainer()\n        for i in range(count):"),
    ('struct-parse-writes-parent', 'C17', CORE, "                    obj[sc.name] = subobj\n                    context[sc.name] = subobj\n            except StopFieldError:\n                break\n        return obj\n\n    def _build(self, obj, stream, context, path):\n        if obj is None:\n            obj = Container()",
     "                    obj[sc.name] = subobj\n                    context[sc.name] = subobj\n                    context._[sc.name] = subobj\n            except StopFieldError:\n                break\n        return obj\n\n    def _build(self, obj, stream, context, path):\n        if obj is None:\n            obj = Container()"),
    ('bwo-tell', 'C08', CORE, "return super().tell() + self.parent_stream_offset", "return super().tell() - self.parent_stream_offset"),
    ('bwo-seek', 'C08', CORE, "super().seek(offset - self.parent_stream_offset)", "super().seek(offset)"),
    ('from-reading-offset', 'C08', CORE, "        offset = stream_tell(stream, path)\n        contents = stream_read(stream, length, path)", "        contents = stream_read(stream, length, path)\n        offset = stream_tell(stream, path)"),
    ('padded-pad', 'C03', CORE, "        pad = length - (position2 - position1)\n        if pad < 0:\n            raise PaddingError(\"subcon parsed", "        pad = length - (position2 - position1) - 1\n        if pad < 0:\n            raise PaddingError(\"subcon parsed"),
    ('aligned-pad', 'C03', CORE, "        pad = -(position2 - position1) % modulus\n        stream_read(stream, pad, path)", "        pad = (position2 - position1) % modulus\n        stream_read(stream, pad, path)"),
    ('const-build-none', 'C13', CORE, "if obj not in (None, self.value):", "if obj in (None, self.value):"),
    ('peek-restore', 'C09', CORE, "        finally:\n            stream_seek(stream, fallback, 0, path)\n\n    def _build(self, obj, stream, context, path):\n        return obj", "        finally:\n            pass\n\n    def _build(self, obj, stream, context, path):\n        return obj"),
    ('pointer-restore', 'C09', CORE, "        obj = self.subcon._parsereport(stream, context, path)\n        stream_seek(stream, fallback, 0, path)\n        return obj", "        obj = self.subcon._parsereport(stream, context, path)\n        stream_seek(stream, 0, 0, path)\n        return obj"),
    ('rawcopy-len', 'C14', CORE, "        data = stream_read(stream, offset2-offset1, path)\n        return Container(data=data, value=obj, offset1=offset1, offset2=offset2, length=(offset2-offset1))", "        data = stream_read(stream, offset2-offset1-1, path)\n        return Container(data=data, value=obj, offset1=offset1, offset2=offset2, length=(offset2-offset1))"),
    ('byteint-swap-sign', 'C03', CORE, "        if evaluate(self.swapped, context):\n            data = swapbytes(data)\n        try:\n            return bytes2integer(data, self.signed)", "        if not evaluate(self.swapped, context):\n            data = swapbytes(data)\n        try:\n            return bytes2integer(data, self.signed)"),
    ('fixedsized-len', 'C08', CORE, "        substream = BytesIOWithOffsets.from_reading(stream, length, path)\n        return self.subcon._parsereport(substream, context, path)\n\n    def _build(self, obj, stream, context, path):\n        length = evaluate(self.length, context)",
     "        substream = BytesIOWithOffsets.from_reading(stream, length - 1, path)\n        return self.subcon._parsereport(substream, context, path)\n\n    def _build(self, obj, stream, context, path):\n        length = evaluate(self.length, context)"),
    ('prefixed-includelength', 'C03', CORE, "        if self.includelength:\n            length -= self.lengthfield._sizeof(context, path)\n        substream = BytesIOWithOffsets.from_reading", "        if not self.includelength:\n            length -= self.lengthfield._sizeof(context, path)\n        substream = BytesIOWithOffsets.from_reading"),
    ('prefixed-outer-stream', 'C08', CORE, "        substream = BytesIOWithOffsets.from_reading(stream, length, path)\n        return self.subcon._parsereport(substream, context, path)\n\n    def _build(self, obj, stream, context, path):\n        stream2 = io.BytesIO()",
     "        substream = BytesIOWithOffsets.from_reading(stream, length, path)\n        return self.subcon._parsereport(stream, context, path)\n\n    def _build(self, obj, stream, context, path):\n        stream2 = io.BytesIO()"),
    ('prefixed-build-len', 'C03', CORE, "        length = len(data)\n        if self.includelength:\n            length += self.lengthfield._sizeof(context, path)", "        length = len(data) + 1\n        if self.includelength:\n            length += self.lengthfield._sizeof(context, path)"),
    ('fixedsized-build-pad', 'C03', CORE, "        stream_write(stream, bytes(pad), pad, path)", "        stream_write(stream, bytes(pad-1), pad-1, path)"),
    ('select-swallows-explicit', 'C13', CORE, "                obj = sc._parsereport(stream, context, path)\n            except ExplicitError:\n                raise\n            except Exception:", "                obj = sc._parsereport(stream, context, path)\n            except Exception:"),
    ('greedyrange-swallows-explicit', 'C13', CORE, "        except StopFieldError:\n            pass\n        except ExplicitError:\n            raise\n        except Exception:\n            if fallback is None:", "        except StopFieldError:\n            pass\n        except Exception:\n            if fallback is None:"),
    ('peek-swallows-explicit', 'C13', CORE, "            return self.subcon._parsereport(stream, context, path)\n        except ExplicitError:\n            raise\n        except ConstructError:", "            return self.subcon._parsereport(stream, context, path)\n        except ConstructError:"),
    ('select-build-swallows-explicit', 'C13', CORE, "                data = sc.build(obj, **context)\n            except ExplicitError:\n                raise\n            except Exception:", "                data = sc.build(obj, **context)\n            except Exception:"),
    ('validator-inverted', 'C13', CORE, "        if not self._validate(obj, context, path):\n            raise ValidationError", "        if self._validate(obj, context, path):\n            raise ValidationError"),
    ('check-build-skipped', 'C13', CORE, "        passed = evaluate(self.func, context)\n        if not passed:\n            raise CheckError(\"check failed during building\", path=path)", "        passed = True\n        if not passed:\n            raise CheckError(\"check failed during building\", path=path)"),
    ('enum-encode-passes-unknown', 'C13', CORE, "            return self.encmapping[obj]\n        except KeyError:\n            raise MappingError(\"building failed, no mapping for %r\" % (obj,), path=path)", "            return self.encmapping.get(obj, obj)\n        except KeyError:\n            raise MappingError(\"building failed, no mapping for %r\" % (obj,), path=path)"),
    ('enum-decode-clamps', 'C13', CORE, "            return EnumInteger(obj)", "            return EnumInteger(obj & 0xffffffff)"),
    ('const-parse-noteq', 'C13', CORE, "        if not obj == self.value:\n            raise ConstError(f\"parsing expected", "        if obj == self.value and False:\n            raise ConstError(f\"parsing expected"),
    ('struct-params', 'C07', CORE, "        obj = Container()\n        obj._io = stream\n        context = Container(_ = context, _params = context._params, _root = None, _parsing = context._parsing, _building = context._building, _sizing = context._sizing, _subcons = self._subcons, _io = stream, _index = context.get(\"_index\", None))", "        obj = Container()\n        obj._io = stream\n        context = Container(_ = context, _params = context, _root = None, _parsing = context._parsing, _building = context._building, _sizing = context._sizing, _subcons = self._subcons, _io = stream, _index = context.get(\"_index\", None))"),
    ('struct-root', 'C07', CORE, "        obj._io = stream\n        context = Container(_ = context, _params = context._params, _root = None, _parsing = context._parsing, _building = context._building, _sizing = context._sizing, _subcons = self._subcons, _io = stream, _index = context.get(\"_index\", None))\n        context._root = context._.get(\"_root\", context)",
     "        obj._io = stream\n        context = Container(_ = context, _params = context._params, _root = None, _parsing = context._parsing, _building = context._building, _sizing = context._sizing, _subcons = self._subcons, _io = stream, _index = context.get(\"_index\", None))\n        context._root = context._"),
    ('struct-noindex', 'C07', CORE, "        obj = Container()\n        obj._io = stream\n        context = Container(_ = context, _params = context._params, _root = None, _parsing = context._parsing, _building = context._building, _sizing = context._sizing, _subcons = self._subcons, _io = stream, _index = context.get(\"_index\", None))", "        obj = Container()\n        obj._io = stream\n        context = Container(_ = context, _params = context._params, _root = None, _parsing = context._parsing, _building = context._building, _sizing = context._sizing, _subcons = self._subcons, _io = stream, _index = None)"),
    ('struct-ctx-not-updated', 'C07', CORE, "                    obj[sc.name] = subobj\n                    context[sc.name] = subobj\n            except StopFieldError:\n                break\n        return obj\n\n    def _build(self, obj, stream, context, path):\n        if obj is None:\n            obj = Container()",
     "                    obj[sc.name] = subobj\n            except StopFieldError:\n                break\n        return obj\n\n    def _build(self, obj, stream, context, path):\n        if obj is None:\n            obj = Container()"),
    ('struct-flag-swapped', 'C07', CORE, "        obj = Container()\n        obj._io = stream\n        context = Container(_ = context, _params = context._params, _root = None, _parsing = context._parsing, _building = context._building, _sizing = context._sizing, _subcons = self._subcons, _io = stream, _index = context.get(\"_index\", None))", "        obj = Container()\n        obj._io = stream\n        context = Container(_ = context, _params = context._params, _root = None, _parsing = context._building, _building = context._parsing, _sizing = context._sizing, _subcons = self._subcons, _io = stream, _index = context.get(\"_index\", None))"),
    ('expr-rsub-order', 'C11', EXPR, "    def __rsub__(self, other):\n        return BinExpr(operator.sub, other, self)", "    def __rsub__(self, other):\n        return BinExpr(operator.sub, self, other)"),
    ('expr-shift-swapped', 'C11', EXPR, "    def __rshift__(self, other):\n        return BinExpr(operator.rshift, self, other)", "    def __rshift__(self, other):\n        return BinExpr(operator.lshift, self, other)"),
    ('expr-repr-noparen', 'C11', EXPR, "        return \"(%s %s %s)\" % (_operandtext(self.lhs, repr), opnames[self.op], _operandtext(self.rhs, repr))", "        return \"%s %s %s\" % (_operandtext(self.lhs, repr), opnames[self.op], _operandtext(self.rhs, repr))"),
    ('expr-call-order', 'C11', EXPR, "        return self.op(lhs, rhs)", "        return self.op(rhs, lhs)"),
    ('expr-path-parent', 'C11', EXPR, "            return self.__parent(obj)[self.__field]", "            return obj[self.__field]"),
    ('expr-opname', 'C11', EXPR, "    operator.floordiv : \"//\",", "    operator.floordiv : \"/\","),
    ('sbib-order', 'C10', BIN, "for i in reversed(range(0,len(data),8)))", "for i in range(0,len(data),8))"),
    ('b2b-mod', 'C10', BIN, "if len(data) % 8 != 0:\n        raise ValueError(f\"data length {len(data)} must be", "if len(data) % 4 != 0:\n        raise ValueError(f\"data length {len(data)} must be"),
]


def run_one(m, verbose=False):
    ident, pid, file, old, new = m
    d = tempfile.mkdtemp(prefix='mut-', dir='/tmp')
    try:
        shutil.copytree('/repo/construct', os.path.join(d, 'construct'))
        p = os.path.join(d, file)
        s = open(p).read()
        if s.count(old) < 1:
            return ident, pid, 'PATTERN-NOT-FOUND', ''
        open(p, 'w').write(s.replace(old, new, 1))
        env = dict(os.environ, PYVC_REPO=d, PYVC_OUT=d)
        t0 = time.time()
        r = subprocess.run([os.path.join(ROOT, 'check'), pid], env=env, capture_output=True, text=True)
        lines = [l for l in r.stdout.splitlines() if l.startswith(('VIOLATION', 'UNDECIDED', 'CHECKER'))]
        verdict = {0: 'SURVIVED', 1: 'caught', 2: 'undecided', 3: 'checker-error'}.get(r.returncode, 'rc%d' % r.returncode)
        return ident, pid, verdict, (lines[0][:200] if lines else r.stderr[-200:]) + ' (%.0fs)' % (time.time() - t0)
    finally:
        shutil.rmtree(d, ignore_errors=True)


if __name__ == '__main__':
    sel = [a for a in sys.argv[1:] if not a.startswith('-')]
    ms = [m for m in MUTANTS if not sel or any(s in m[0] or s == m[1] for s in sel)]
    from concurrent.futures import ThreadPoolExecutor
    res = []
    with ThreadPoolExecutor(max_workers=3) as ex:
        for r in ex.map(run_one, ms):
            print('%-22s %-4s %-14s %s' % r)
            res.append(r)
    surv = [r for r in res if r[2] != 'caught']
    print('%d mutants, %d caught, %d not caught' % (len(res), len(res) - len(surv), len(surv)))
    sys.exit(1 if surv else 0)
